#!/usr/bin/env python3
"""Run /repo's pinned test suite (BASELINE.json cmd) and compare the passing set with stable_pass.
usage: baseline_check.py [junit.xml]   (without argument: runs the suite into a temp file)"""
import json, os, subprocess, sys, tempfile
import xml.etree.ElementTree as ET
b = json.load(open("/root/.vp/BASELINE.json"))
if len(sys.argv) > 1:
    path = sys.argv[1]
else:
    fd, path = tempfile.mkstemp(suffix=".xml"); os.close(fd)
    cmd = b["cmd"].replace("<file>", path)
    subprocess.run(cmd, shell=True, stdout=subprocess.DEVNULL, stderr=subprocess.DEVNULL, cwd="/repo")
passed = set()
for tc in ET.parse(path).getroot().iter("testcase"):
    if not any(ch.tag in ("failure", "error", "skipped") for ch in tc):
        passed.add(f"{tc.get('classname')}::{tc.get('name')}")
stable = set(b["stable_pass"])
missing = sorted(stable - passed)
print(f"stable_pass={len(stable)} passed_now={len(passed)} missing={len(missing)}")
for m in missing[:40]:
    print("  MISSING", m)
sys.exit(1 if missing else 0)
