#!/bin/bash
# usage: confirm_queue.sh "C27 1 fast" "C27 2 fast" ...   (sequential; results in /tmp/confirm.queue.log)
for item in "$@"; do
  set -- $item
  echo "=== $1 $2 $3 $(date +%H:%M)" >> /tmp/confirm.queue.log
  nice -n 5 /verif/tools/confirm_seed.sh $1 $2 $3 >> /tmp/confirm.queue.log 2>&1
done
echo "QUEUE DONE $(date +%H:%M)" >> /tmp/confirm.queue.log
