#!/bin/bash
# usage: try_patch_wt.sh <Cseed-id e.g. C09> <k> <check id> — applies /tmp/mut/<id>.out/patch<k>.diff in the scratch worktree
# /tmp/mut/<id>, runs the check against THAT tree (VERIF_REPO), reverts.  /repo is not touched.
ID="$1"; K="$2"; CHK="$3"; TIER="${4:-quick}"
cd /tmp/mut/$ID || exit 9
git checkout -q -- . ; git apply /tmp/mut/$ID.out/patch$K.diff || { echo "patch does not apply"; exit 9; }
cd /verif
VERIF_REPO=/tmp/mut/$ID ./check "$CHK" --tier $TIER > /tmp/try_patch.$ID.$K.out 2>&1
RC=$?
cd /tmp/mut/$ID && git checkout -q -- .
echo "check exit=$RC"
grep -E "VIOLATION|KNOWN-FINDING|HARNESS|INCONCLUSIVE" /tmp/try_patch.$ID.$K.out | cut -c1-200 | head -6
