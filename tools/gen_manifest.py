#!/usr/bin/env python3
"""Writes /verif/MANIFEST.json from the table below (single source of truth for the interface)."""
import json
import os

HERE = os.path.dirname(os.path.dirname(os.path.abspath(__file__)))

NA = {
    "C01": "Whole-program claim about map_workload_to_arch: template generation, numpy enumeration, pandas joins and process pools cannot be executed on symbols; its solver-decidable lemmas are decided under C07, C08, C09, C10, C11.",
    "C02": "Front of a full mapper run (pandas/numba/joblib); the dominance kernel it rests on is decided under C11.",
    "C03": "Needs the returned LoopTrees of concrete mapper runs re-derived; inputs are whole specs, no symbolic domain survives pandas _numeric_cast.",
    "C04": "Compares joined pandas totals with a second concrete model run; symbols cannot pass PmappingDataframe.",
    "C12": "makepareto is pandas + np.log/np.exp/np.round on float arrays; a solver model of the rounding would verify the model, not the code; the zero-tolerance dominance core is decided under C11.",
    "C13": "join_pmappings/merge_next are pandas merges over dynamically named float columns; no route keeps symbols through them.",
    "C14": "Equality of two full staged joins (pandas, thresholds, retries); only isolated lemmas are encodable and do not entail the property.",
    "C15": "Compression/decompression is pandas index/merge bookkeeping; a shim would re-implement pandas and verify the shim.",
    "C16": "End-to-end optimality gap of mapper runs under tolerances; rounding is numpy transcendental code.",
    "C18": "Compares optima of two whole mapper runs; most relaxations change the set of templates, a structural not numeric difference.",
    "C20": "Process scheduling, PYTHONHASHSEED and joblib disk cache are OS-level; the one schedule-dependent function that is pure Python is decided under C32.",
    "C22": "Every set operator re-enters pydantic-core (InvertibleSet(...)), which realises symbolic sets; what remains is enumeration of concrete expression trees.",
    "C23": "Regex-driven parser on strings >= 9 characters; CrossHair's symbolic str is inconclusive beyond ~4 characters and on re.",
    "C25": "Input is a tree of pydantic objects with no numeric content; symbolic execution degenerates into enumerating concrete trees.",
    "C29": "Rename resolution is name look-up over pydantic lists plus eval of strings; no symbolic domain, only a handful of concrete configurations.",
}

# property -> (category, technique, level text, level note, design ref)
CLAIMED = {
    "C08": ("model_checking", "real pruned tile-shape enumeration per template vs z3 over the one-hot finite domain of all tile assignments (bounded SMT)",
            "Bounded SMT per mapper template: the real make_tile_shapes runs with all its pruning; z3, over the finite domain of every perfectly factorising tile assignment (one-hot symbols, table-defined monomials of the captured objective/usage formulas), shows that no valid assignment has an objective vector that is not weakly dominated by a returned row; every returned row is checked to be the image of a valid assignment. Spatial loops are part of the domain and loop-bound constraints part of the validity specification (PE-array configurations). ~150 (quick) / ~1700 (thorough) templates, rank bounds up to 64/48.",
            "End-to-end per template (not the per-stage obligations planned first); relies on C07 for 'the captured formulas are what the exploration evaluates'; single-Einsum templates only (no reservation/fused-loop columns), perfect factorisation (imperfect candidates are decided under C10), no max_fused_loops / tile-shape / min-usage constraints, zero tolerances; float32 tolerance 2e-5 on objectives.", "4/C08"),
    "C10": ("model_checking", "bounded translation of the integer kernels' Python source (inspect.getsource at run time) into SMT by the guarded-merge interpreter; z3 over a symbolic argument",
            "Bounded SMT (CBMC style, unwinding assertions): _factorize(n) and _divisors(n) return exactly the divisors of n, _factorize_imperfect(n) contains the smallest shape of every achievable tile count and nothing above n, _count_factorizations(n, pattern) equals a brute-force chain count, for every n up to 64/48/36/10 (quick) and 80/96/48/14 (thorough) and every loop pattern of length <= 3/4; get_possible_factor_sizes (nested closure, Python sets, sorted, round, while) is encoded with a symbolic outer size up to 48/64 (perfect) and 24..48/36..64 (imperfect, dividing or not) for inner sizes 1..4.",
            "Coarseness 1 only; inner sizes 1..4 are concrete (case split), the outer size symbolic; a concrete sweep against brute force (outer <= 160/600, all inner divisors) remains as validation; math.ceil/round on quotients and square roots are modelled exactly (float exactness below 2^52 assumed); an unsupported Python construct in the analysed source is exit 3 (inconclusive).", "4/C10"),
    "C07": ("translation_validation", "four captured representations of every exploration formula (symengine tree, sympy tree, objective formula, lambdified source) proven pairwise equivalent by z3 over the tile-shape box",
            "Translation validation with bounded SMT: the real make_tile_shapes runs on mapper templates (real get_jobs) under four capturing wrappers; for each formula z3 shows symengine tree == sympy tree == Objective.formula == the lambdified function's source for every integer tile assignment in [1, rank bound]^symbols (no divisibility assumed); the lambdify cache is exercised with sibling expressions whose returned function must compute the requested expression (z3); the formula-vs-concrete-mapping leg is validated by running the real run_model on numeric copies of the template at solver/mapper-chosen assignments.",
            "Reals instead of float32 (the property allows float32 rounding); formulas that differ by less than 1e-9 relative everywhere in the box count as equal (binary-float constants rounded in different places); the lambdified function is read through its source; templates without any valid tile shape are skipped; spatial loops outside.", "4/C07"),
    "C24": ("model_checking", "real geometry helpers executed on symbolic shapes, compared with an interval/enumeration reference by z3 (bounded SMT)",
            "Bounded SMT: for ~90 (quick) / ~180 (thorough) projection structures a*x + b*y + c (optionally a second rank) the real get_stride_and_halo_of_einsum and compute_dense_tile_occupancy run on symbolic shapes X, Y; z3 shows stride == step, halo == extent added by the other variable, occupancy == dense bounding interval, and for unit steps == the number of distinct projected points, for all X, Y in [1,6].",
            "Only the sympy-backed quantities: rank-variable bounds, operation counts and tensor sizes come from islpy and cannot be run on symbols (not decided). Non-negative coefficients only.", "4/C24"),
    "C21": ("model_checking", "CrossHair symbolic execution of _get_parsable_field_order over all dependency graphs (symbolic Boolean matrix behind a stub of re)",
            "CrossHair explores every path of the real ordering function for every directed dependency graph on 3 definitions and each of the 6 key orders (quick), and on 4 definitions sharded by the first matrix row for three key orders (thorough): an EvaluationError iff the graph is cyclic, otherwise a dependency-respecting permutation. Only 'Confirmed over all paths' counts.",
            "re.findall stubbed by its contract (validated by replays that build real expression strings and run them through Spec._spec_eval_expressions); the scoping clause (component > arch variables > spec variables) is a two-configuration concrete probe; more than 4 definitions and word-prefix names are outside.", "4/C21"),
    "C11": ("model_checking", "bounded translation of the kernel's Python source (inspect.getsource at run time) into one SMT formula by a guarded-merge interpreter; z3 over reals and IEEE float32 (cvc5 binary as second back end for the 3x2 float32 shape)",
            "Bounded SMT (CBMC style): the current source of _sfs_bnl_core is executed over symbolic matrices (reals: up to 4x3/3x4 quick, 5x3/4x4/6x2 thorough, one and two groups; float32 incl. +-inf: 2x2 by z3 and 3x2 by the cvc5 binary on the exported SMT-LIB2 of the same encoding, z3 answering unknown there) with unwinding assertions; z3 shows mask[i] <=> row i is not strictly dominated within its group for every matrix of the shape.",
            "The numba-compiled code (fastmath) is reached only through replays; argsort is modelled as the stable sorting permutation; the numpy/pandas glue (group encoding, goal signs, prime-factor expansion, dedup) is assumed by contract and only exercised by replays and the float64 cast probe (a known finding).", "4/C11"),
    "C09": ("model_checking", "verdicts of the real comparator vs z3 integer-point search over the whole box (bounded SMT)",
            "Bounded SMT: the real geq_leq_zero/diff_geq_leq_zero are called on ~550 (quick) / ~4500 (thorough) formulas (grammar with ceilings/Min/Max plus the real model's formulas for symbolic tile shapes); for every non-UNKNOWN verdict z3 searches the integer box [1,hi]^k (hi<=12/24) for a point with the forbidden sign; unsat = verdict sound on the whole box.",
            "Derivative verdicts are judged on the expression the comparator derives itself, excluding Min/Max tie points; terms_do_not_cross_zero=True not exercised; three classes of unsound verdicts found on the unchanged tree are recorded in known_findings.json (ceilings dropped, Heaviside all-0/all-1 partition, sympy 1.14 relational evaluation on integer symbols).", "4/C09"),
    "C28": ("model_checking", "real Mappings accessors executed on symbolic cells (object-dtype DataFrame), identities decided by z3",
            "SMT over unbounded symbols: on the column sets of real 1-3 Einsum results every numeric cell is a symbol; the real energy/actions/latency/resource_usage accessors run for every per_* flag combination and z3 shows each breakdown sums to the same total, latency() is the sum over Einsums of the max over components, resource_usage() the max reservation, for all cell values.",
            "Two stubs (_coerce_numeric identity, np.maximum -> Max). 'Equals the Total column' relies on the producer invariant Total == sum of parts (proven for one Einsum under C05, validated numerically on the real rows here). One-row frames.", "4/C28"),
    "C06": ("model_checking", "symbolic execution of the real model vs element-liveness peak over guarded time steps, decided by z3 (bounded SMT)",
            "Bounded SMT, single-Einsum mappings: for every memory the real run_model's usage formula (all inputs symbolic) is compared with the peak over time of the bits live under element liveness: reported >= peak and reported <= sum of whole tiles for all trip counts in [1,K]; reported == peak on unobstructed skeletons with trip counts in [3,K]; persistent tensors scale with n_instances; the capacity rejection is probed through the public API (size == reported accepted, size == peak-1 rejected).",
            "The fused multi-Einsum clause (reservation merging in PmappingDataframe: pandas on float columns) is NOT decided. The model adds per-holder peaks; with 1-2 trip loops or a holder interposed between a holder and the relevant loops it streams through, it reports more than the element-liveness peak (never less) - equality is therefore claimed on the stated sub-domain only. MM/MV workloads, <=4/5 loops.", "4/C06"),
    "C17": ("model_checking", "symbolic execution of the producer chain run_model -> _clean_energy_columns -> _apply_edp_columns for all 256 metric flag sets, decided by z3",
            "SMT over unbounded symbols: for each of the 2^8 metric flag sets the real chain runs on symbols (object-dtype DataFrame); z3 shows EDP == (dynamic+leak)*latency, energy == dynamic+leak and the presence/absence of every total column, for all tile shapes and costs.",
            "Only the fourth sentence of C17 (EDP column equals energy times latency) and the column bookkeeping; the three sentences about optima of different mapper runs are not decided (whole mapper runs).", "4/C17"),
    "C19": ("model_checking", "relational symbolic execution of the real model (parameters p vs k*p, n_instances symbolic), decided by z3",
            "SMT over unbounded symbols: the real run_model is executed symbolically with every energy/leak power replaced by k*p, every throughput by k*p, and n_instances by symbols; z3 shows every output column scales by the stated factor (k, 1/k, Nw*Ne, or 1) for all k>0, N>=1, tile shapes, rank bounds and costs, per mapping skeleton.",
            "Per-mapping statement; the optimum over mappings additionally needs a scale-independent exact search (C01, not applicable). Differences are normalised with sympy.expand and a Max/Min positive-factor pull-out before the query.", "4/C19"),
    "C31": ("model_checking", "symbolic execution of the real model on Toll architectures vs loop-nest executor, decided by z3 (bounded SMT)",
            "Bounded SMT on Toll architectures (Toll between Main/GLB and between GLB/RF) with all 27 per-tensor direction assignments over the family: Toll write actions and occupancy are identically 0, Toll read actions equal the values crossing it in the configured direction(s) divided by values per action, for all trip counts in [1,3]/[1,4] and all costs.",
            "Model-level clauses only: the third clause (returned mappings) is covered only through run_model's guard, exercised on one two-Einsum mapping; otherwise as C05.", "4/C31"),
    "C05": ("model_checking", "symbolic execution of the real model (evaluate_mapping/run_model on sympy symbols) vs guarded-unrolling executor, decided by z3 (bounded SMT)",
            "Bounded SMT: for each of ~150 (quick) / ~900 (thorough) mapping skeletons the real model runs once with every numeric input symbolic; z3 shows each read/write/compute count equals an operational loop-nest executor for all trip counts in [1,3]/[1,4] per loop and all positive bit widths, values-per-action, energies, throughputs; energy/latency columns are shown to be the documented functions of those counts for arbitrary tile shapes.",
            "Skeleton family: MM/MV/CONV1 on 2-3 level hierarchies with optional Toll, <=2 temporal loops per rank variable, no spatial loops; mixed skip_initial_output_write flags follow the semantics pinned by tests/test_model.py (a component's flag governs its own actions); sympy cancel/expand in the trusted base; a concrete validation sweep (real code on numbers vs naive simulator) accompanies every instantiation.", "4/C05"),
    "C30": ("model_checking", "real cost functions called on z3 terms, compared with guarded link-by-link routing sums (bounded SMT)",
            "Bounded SMT: per_loop_transfer_cost of both topology models is executed on z3 terms (fan-out n symbolic in 1..32/64, volume unbounded real, stride case-split over 1..8/16); z3 shows reported total hops and max link traffic equal a routing reference for every n and volume.",
            "Non-distributed source co-located with destination 0; straight-line mesh routes; distributed sources and partially relevant loops outside; known finding: single-destination multicast traffic.", "4/C30"),
    "C32": ("model_checking", "CrossHair symbolic execution of parallel() with a contract stub for joblib.Parallel",
            "CrossHair explores all paths of the real parallel() for symbolic job payloads, symbolic completion permutations and worker counts, job count <= 5 (quick) / 6 (thorough); only 'Confirmed over all paths' counts.",
            "joblib.Parallel replaced by its contract (unordered generator = arbitrary permutation); pbar off; counterexamples are replayed on real joblib workers with sleeps.", "4/C32"),
    "C26": ("model_checking", "symbolic execution of the real cost code on sympy symbols + z3 (bounded SMT)",
            "Bounded SMT: for each generated architecture tree the real calculate_component_costs runs once with symbolic per-instance area/leak; z3 shows total == per-instance x product of fan-outs on the path (own included) for all positive costs. Bounded by the tree family (depth<=4, <=600 trees).",
            "Fan-outs are concrete distinct primes (they pass through int()); Array/Network nodes outside; expected instance counts come from the generator's own tree.", "4/C26"),
    "C27": ("model_checking", "symbolic execution of the real cost code on sympy symbols + z3 (bounded SMT)",
            "Bounded SMT: call histories of length 2-3 (all flag subsets in thorough) executed on symbolic costs and scale factors; z3 shows every already-computed field is unchanged by a further call, for all positive values.",
            "hwcomponents models bypassed (explicit costs); architectures: three repository examples plus generated trees.", "4/C26-C27"),
}


def main():
    checks = []
    for pid in sorted(CLAIMED):
        if not os.path.exists(os.path.join(HERE, "props", f"{pid}.py")):
            continue
        cat, tech, text, note, ref = CLAIMED[pid]
        checks.append({
            "property_id": pid,
            "quick_cmd": f"./check {pid} --tier quick",
            "thorough_cmd": f"./check {pid} --tier thorough",
            "evidence_file": f"/verif/evidence/{pid}.json",
            "replay_cmd_template": f"./check {pid} --replay {{path}}",
            "engine": "symx" if pid not in ("C10", "C11", "C21", "C32") else ("astsym" if pid in ("C10", "C11") else "crosshair"),
            "level_claimed": {"category": cat, "text": text, "design_ref": f"DESIGN.md section {ref}"},
            "level_note": note,
            "technique": tech,
        })
    claimed = {c["property_id"] for c in checks}
    na = []
    for i in range(1, 33):
        pid = f"C{i:02d}"
        if pid in claimed:
            continue
        if pid in NA:
            na.append({"property_id": pid, "reason": NA[pid]})
        else:
            na.append({"property_id": pid, "reason": "Decidable by the technique (see DESIGN.md section 4) but its check is not registered yet in this revision; nothing is claimed for it."})
    m = {
        "version": 1,
        "setup_cmd": "./setup.sh",
        "hooks": {
            "guard": "ACCELFORGE_VERIF",
            "enable": "no source hooks: checks observe the repository through unittest.mock.patch wrappers around module-level functions; ./check exports ACCELFORGE_VERIF=1 (unused by the repository)",
            "baseline_off_cmd": "cd /repo && /venv/bin/python -m pytest -ra -q -p no:cacheprovider --timeout=900 --continue-on-collection-errors",
            "source_commits": [],
            "add_only": True,
        },
        "engines": [
            {"name": "symx", "path": "/verif/lib/symx", "serves_properties": sorted(p for p in claimed if p not in ("C10", "C11", "C21", "C32")),
             "kind_free_text": "runs accelforge's own model/cost code on sympy symbols, translates the resulting terms to z3 and decides the property as (un)satisfiability"},
            {"name": "astsym", "path": "/verif/lib/astsym", "serves_properties": sorted(p for p in claimed if p in ("C10", "C11")),
             "kind_free_text": "guarded-merge bounded translation of Python source (inspect.getsource at run time) into one SMT formula, CBMC style, with unwinding assertions"},
            {"name": "crosshair", "path": "/verif/lib/xh", "serves_properties": sorted(p for p in claimed if p in ("C21", "C32")),
             "kind_free_text": "CrossHair 0.0.110 symbolic execution of pure-Python control code with contract stubs for library calls"},
        ],
        "checks": checks,
        "not_applicable": na,
        "notes": "Exit codes: 0 held within bounds, 1 VIOLATION (replayed on real code), 3 harness error/inconclusive. See DESIGN.md.",
    }
    with open(os.path.join(HERE, "MANIFEST.json"), "w") as f:
        json.dump(m, f, indent=1)
    print("claimed:", sorted(claimed))


if __name__ == "__main__":
    main()
