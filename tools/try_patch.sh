#!/bin/bash
# usage: try_patch.sh <patch.diff> <Cxx> [tier]   — applies the patch to /repo, runs the check, reverts.
P="$1"; ID="$2"; TIER="${3:-quick}"
cd /repo || exit 9
if [ -n "$(git status --porcelain --untracked-files=no)" ]; then echo "repo dirty"; exit 9; fi
git apply "$P" || { echo "patch does not apply"; exit 9; }
cd /verif
./check "$ID" --tier "$TIER" > /tmp/try_patch.$ID.out 2>&1
RC=$?
cd /repo && git checkout -- . 
echo "check exit=$RC"
grep -E "VIOLATION|KNOWN-FINDING|HARNESS|INCONCLUSIVE" /tmp/try_patch.$ID.out | cut -c1-300 | head -8
exit 0
