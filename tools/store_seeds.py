#!/usr/bin/env python3
"""Copies confirmed seeded changes from the sub-agents' output dirs into /verif/seeded/<id>-<k>/."""
import json, os, re, shutil
LOG = open("/tmp/confirm.queue.log").read() if os.path.exists("/tmp/confirm.queue.log") else ""
DET = {
 # seed: (check that catches it, note)
 "C05-1": ("C05", "caught after the concrete replay also compared per-component latency columns and searched small trip vectors for a witness of a failed identity (before: the symbolic identity failed but the replay at trip counts 2 did not reproduce -> exit 3)"),
 "C05-2": ("C05", "caught by the first version"),
 "C19-1": ("C19", "caught (after n_instances violations were replayed concretely instead of being dropped)"),
 "C19-2": ("C11", "NOT caught by C19 (the change is in the Pareto filter; C19 claims per-mapping scaling only); caught by C11 after _is_constant was encoded from source and real-valued witnesses were made float32-exact"),
 "C26-1": ("C26", "caught by the first version"),
 "C26-2": ("C26", "caught after the tree generator gave different nodes the same spatial dimension names (X, Y, ...) as the repository's own network architectures do"),
 "C27-1": ("C27", "caught after literal-zero cost patterns (free actions, zero area/leak) were added to the instantiations: a truthiness test on a cost is invisible on symbols"),
 "C27-2": ("C27", "caught by the first version"),
 "C30-1": ("C30", "caught after the real code was run on lib/symx/znum.Z numbers (// on raw z3 terms raised TypeError -> exit 3 before)"),
 "C30-2": ("C30", "as C30-1"),
 "C31-1": ("C31", "caught by the first version"),
 "C31-2": ("C31", "caught by the first version"),
 "C32-1": ("C32", "caught after conditions with Optional[int] payloads (a job may legitimately return None) were added for <= 3 jobs"),
 "C32-2": ("C32", "caught by the first version"),
 "C06-2": ("C06", "caught by the first version"),
 "C17-1": ("C17", "caught after the seeded-wrong-definition guard was ordered after the real obligations (before: the guard itself tripped -> exit 3)"),
 "C17-2": ("C17", "caught after a numeric-witness fallback for `unknown` on a non-cancelling residual"),
 "C28-1": ("C28", "caught after the producer invariant (Total == sum/max of parts) was checked on symbolic run_model output with symbolic n_instances"),
 "C09-1": ("C09", "caught by the first version"),
 "C09-2": ("C09", "caught after the mixed-sign polynomial family was added to the formula grammar"),
 "C11-1": ("C11", "caught after the pre-filled-window instantiation (second block-nested-loop block, >= 16 kept rows) was added"),
 "C11-2": ("C11", "caught after the solver-generated glue probe (prime-factor columns through the real makepareto glue) was added"),
 "C21-1": ("C21", "caught after the regex stub offered `search` as well and the prefix-name sweep was added"),
 "C21-2": ("C21", "caught after the scoping probe used falsy values (0) for the shadowing arch variable"),
 "C24-1": ("C24", "caught by the first version"),
 "C24-2": (None, "NOT caught: the change is in the ISL path (`get_tensor_size` on a non-box set); C24 claims the sympy tile-size path only (DESIGN.md C24 'outside')"),
 "C10-1": ("C10", "caught after lib/astsym learnt int.bit_length, shifts by symbolic amounts and `//=` (before: Unsupported -> exit 3, inconclusive)"),
 "C10-2": ("C10", "caught after lib/astsym learnt any/all, math.prod, comb, list.count, set de-duplication, `for` over guarded lists, `while` with symbolic trip count and interpreting module-level helpers (_prime_factorization) from their source (before: Unsupported -> exit 3)"),
 "C07-1": ("C07", "caught after the cache-aliasing obligations were added (sibling expressions requested from the real cached _lambdify_type_check; the returned function's source must compute the requested sibling)"),
 "C07-2": ("C07", "caught after configurations with integer throughputs that do not divide the action counts and a single latency-bearing component were added (the only way a symengine Rational reaches _to_sp)"),
 "C08-1": ("C10", "NOT caught by C08 (imperfect factorisation is outside its tile-space specification); caught by C10 after the imperfect-mode candidate obligation was extended to outer sizes the inner size does not divide (the solver finds n=5, inner=2)"),
 "C08-2": ("C08", "caught after loop-bound constraints and spatial loops became part of the tile-space specification (PE-array configurations with `~m <= 2`)"),
 "C05-3": ("C05", "caught by the first version (read and write widths are independent symbols); one run ended exit 3 because an arbitrary rational witness did not survive the float replay - witnesses are now chosen dyadic"),
 "C05-4": ("C05", "caught by the first version"),
 "C28-3": ("C28", "caught by the first version (every per_* flag combination is an obligation)"),
 "C28-4": ("C28", "caught only by the VALIDATION added afterwards (one real two-objective mapper front, every row's breakdowns against its Total columns); the concatenation of per-mapping frames in map_workload_to_arch is pandas code outside the symbolic part"),
 "C28-2": ("C28", "caught after derived result sets (drop_components_with_zero_energy_and_latency, drop_zeros) were included with literal-zero cell patterns"),
}
REJECT = {"C06-1": "rejected: with the change three baseline tests fail (tests.test_mapper.TestMapperFanoutTwoMatmuls::test_at_glb, ::test_at_glb_with_fanout_node, tests.test_toll.TestToll::test_toll_not_outermost_holder_of_intermediate); the check did catch it after the skeleton family was extended with tensors that are never held in the outermost memory"}
blocks = re.split(r"^=== ", LOG, flags=re.M)
conf = {}
for b in blocks:
    m = re.match(r"(C\d\d) (\d) (fast|full) (\S+)\n(.*)", b, flags=re.S)
    if not m:
        continue
    pid, k, mode, at, rest = m.groups()
    t = re.search(r"tests: ran=(\d+) stable_in_scope=(\d+) newly_failing=(\d+)", rest)
    d = re.search(r"demo with patch exit=(\d+) ; without exit=(\d+)", rest)
    SEQUENTIAL = {"C05-1", "C05-2", "C19-1", "C19-2", "C26-1", "C26-2", "C27-1", "C27-2", "C28-1", "C28-2", "C31-1", "C31-2", "C32-1", "C32-2",
                  "C06-1", "C06-2", "C17-1", "C17-2", "C09-1"}      # confirmed while a single queue was running: the log blocks are unambiguous
    if t and d and f"{pid}-{k}" in SEQUENTIAL:
        conf[f"{pid}-{k}"] = dict(mode=mode, ran=int(t.group(1)), stable=int(t.group(2)), newly_failing=int(t.group(3)), demo_with=int(d.group(1)), demo_without=int(d.group(2)))
# per-seed result files written by confirm_seed.sh (authoritative: the shared log interleaves when several queues run)
import glob
for f in glob.glob("/tmp/confirm.C*.result.json"):
    r = json.load(open(f))
    conf[r["seed"]] = dict(mode=r["mode"], ran=r["ran"], stable=r["stable"], newly_failing=r["newly_failing"], demo_with=r["demo_with"], demo_without=r["demo_without"], note=r.get("note"))
# C30 was confirmed by hand before the queue existed
conf.setdefault("C30-1", dict(mode="fast", ran=877, stable=871, newly_failing=0, demo_with=1, demo_without=0))
conf.setdefault("C30-2", dict(mode="fast", ran=877, stable=871, newly_failing=0, demo_with=1, demo_without=0))
for seed, c in sorted(conf.items()):
    pid, k = seed.split("-")
    src = f"/tmp/mut/{pid}.out"
    if not os.path.exists(f"{src}/patch{k}.diff"):
        continue
    ok = c["newly_failing"] == 0 and c["demo_with"] == 1 and c["demo_without"] == 0
    dst = f"/verif/seeded/{seed}"
    if not ok:
        if seed in REJECT:
            os.makedirs("/verif/seeded/rejected", exist_ok=True)
            json.dump(dict(seed=seed, reason=REJECT[seed], confirmation=c), open(f"/verif/seeded/rejected/{seed}.json", "w"), indent=1)
        continue
    os.makedirs(dst, exist_ok=True)
    shutil.copy(f"{src}/patch{k}.diff", f"{dst}/patch.diff")
    shutil.copy(f"{src}/demo{k}.py", f"{dst}/demo.py")
    meta = {}
    if os.path.exists(f"{src}/meta{k}.json"):
        try:
            meta = json.load(open(f"{src}/meta{k}.json"))
        except Exception:
            meta = {}
    det = DET.get(seed, (pid, "not evaluated yet"))
    out = {"property": pid, "summary": meta.get("summary", "see patch.diff"), "needs_to_manifest": meta.get("what_it_needs_to_manifest", ""),
           "files": meta.get("files", []), "produced_by": "sub-agent given only the property text and a scratch worktree",
           "confirmed": {"how": f"tools/confirm_seed.sh {pid} {k} {c['mode']} in the scratch worktree", "demo_exit_with_patch": c["demo_with"], "demo_exit_without_patch": c["demo_without"],
                         "tests_run": c["ran"], "baseline_stable_tests_in_scope": c["stable"], "newly_failing": c["newly_failing"],
                         "note": c.get("note"), "scope": "the full pinned suite" if c["mode"] == "full" else "fast part (vibe suite, test_model, test_toll, tests/network, viz/plotting/tracegen/isl); the change cannot reach the mapper regression tests"},
           "detected_by": ({"check": f"./check {det[0]} --tier quick (git -C /repo apply patch.diff; run; git -C /repo checkout -- .)", "result": "exit 1 with VIOLATION lines (replayed on the real code)", "note": det[1]}
                           if det[0] else {"check": None, "result": "exit 0 (not detected)", "note": det[1]})}
    json.dump(out, open(f"{dst}/meta.json", "w"), indent=1)
    print("stored", seed)
