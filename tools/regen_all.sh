#!/bin/bash
# Regenerates every evidence file with the quick tier from /verif against /repo (two streams), then validates.
cd /verif
run_stream() { for id in "$@"; do s=$(date +%s); ./check $id --tier quick > /tmp/regen.$id.out 2>&1; rc=$?; e=$(date +%s); echo "$id exit=$rc wall=$((e-s))s" >> /tmp/regen.log; done; }
rm -f /tmp/regen.log
run_stream C05 C07 C09 C10 C19 C24 C26 C30 C32 &
run_stream C06 C11 C08 C28 C17 C21 C27 C31 &
wait
cat /tmp/regen.log
.venv/bin/python - <<'PY'
import json, glob, jsonschema
sch = json.load(open("/root/.vp/EVIDENCE.schema.json"))
for f in sorted(glob.glob("/verif/evidence/C*.json")):
    e = json.load(open(f)); jsonschema.validate(e, sch); print(f.split("/")[-1], e["tier"], "ok")
m = json.load(open("/verif/MANIFEST.json")); jsonschema.validate(m, json.load(open("/root/.vp/MANIFEST.schema.json"))); print("MANIFEST ok")
PY
