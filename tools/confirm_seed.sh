#!/bin/bash
# usage: confirm_seed.sh <Cxx> <k> [fast|full]
# Confirms a seeded change produced by a sub-agent in its scratch worktree /tmp/mut/<Cxx>:
#   demo exits 1 with the patch and 0 without; the pinned test suite (or its fast part) still passes.
# On success copies patch/demo/meta to /verif/seeded/<Cxx>-<k>/ (meta.json is completed by hand).
ID="$1"; K="$2"; MODE="${3:-fast}"
WT=/tmp/mut/$ID; OUT=/tmp/mut/$ID.out
cd "$WT" || exit 9
git checkout -q -- . 
git apply "$OUT/patch$K.diff" || { echo "patch does not apply"; exit 9; }
PYTHONPATH=$WT /venv/bin/python "$OUT/demo$K.py" > /tmp/confirm.$ID.$K.with.txt 2>&1; W=$?
if [ "$MODE" = full ]; then
  TESTS=""
else
  TESTS="tests/vibe_see_readme_in_this_dir tests/test_model.py tests/test_toll.py tests/network tests/test_mapping_viz.py tests/test_plotting.py tests/test_tracegen.py tests/isl"
fi
/venv/bin/python -m pytest -q -p no:cacheprovider --timeout=900 --continue-on-collection-errors --junitxml=/tmp/confirm.$ID.$K.xml $TESTS > /tmp/confirm.$ID.$K.tests.txt 2>&1
git checkout -q -- .
PYTHONPATH=$WT /venv/bin/python "$OUT/demo$K.py" > /tmp/confirm.$ID.$K.without.txt 2>&1; WO=$?
python3 - "$ID" "$K" "$MODE" "$W" "$WO" <<'PY'
import json, sys, xml.etree.ElementTree as ET
ID, K, MODE, W, WO = sys.argv[1:6]
b = json.load(open("/root/.vp/BASELINE.json")); stable = set(b["stable_pass"])
passed, seen = set(), set()
for tc in ET.parse(f"/tmp/confirm.{ID}.{K}.xml").getroot().iter("testcase"):
    key = f"{tc.get('classname')}::{tc.get('name')}"
    seen.add(key)
    if not any(ch.tag in ("failure", "error", "skipped") for ch in tc):
        passed.add(key)
if MODE == "full":
    missing = sorted(stable - passed)
else:
    missing = sorted((stable & seen) - passed)
print(f"tests: ran={len(seen)} stable_in_scope={len(stable & seen) if MODE!='full' else len(stable)} newly_failing={len(missing)}")
for m in missing[:10]: print("   NEWLY FAILING", m)
json.dump(dict(seed=f"{ID}-{K}", mode=MODE, ran=len(seen), stable=len(stable & seen) if MODE != "full" else len(stable), newly_failing=len(missing),
               newly_failing_names=missing[:10], demo_with=int(W), demo_without=int(WO)), open(f"/tmp/confirm.{ID}.{K}.result.json", "w"))
PY
echo "[$ID-$K] demo with patch exit=$W ; without exit=$WO"
