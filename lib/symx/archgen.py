"""Architecture-tree grammar for C26/C27 (DESIGN.md section 4, C26).

A tree is a nested list of items
    ("mem"|"toll"|"cont"|"comp", name, fanouts)      leaves (Container is a leaf without cost)
    ("fork", [items...])                              a side branch; its last item is a Compute
    ("hier", [items...])                              a nested Hierarchical (continues the path)
The top-level list ends with the main Compute.  `fanouts` is a tuple of distinct primes (one
spatial dimension each).  The expected instance count of every component is derived here, from
the generator's own knowledge of the tree: the product of the fan-outs of the node itself and of
every non-Compute leaf that precedes it on the root-to-node path (Computes and Forks that do not
contain the node are side branches, never ancestors)."""
from __future__ import annotations

import itertools
import random

class OutOfPrimes(Exception):
    pass


PRIMES = [2, 3, 5, 7, 11, 13, 17, 19, 23, 29, 31, 37, 41, 43, 47, 53, 59, 61, 67, 71, 73, 79, 83, 89, 97]


def expected_fanouts(tree):
    """name -> (instance count, [names of the nodes whose fan-out is included])."""
    out = {}

    def walk(items, acc, accn):
        # acc: product of fan-outs above; returns the (acc, accn) to continue the path with
        for it in items:
            kind = it[0]
            if kind == "fork":
                walk(it[1], acc, list(accn))        # branch: does not affect the main path
            elif kind == "hier":
                acc, accn = walk(it[1], acc, list(accn))
            else:
                _, name, fans = it
                own = 1
                for f in fans:
                    own *= f
                if kind == "comp":
                    out[name] = (acc * own, accn + ([name] if fans else []))
                else:
                    acc = acc * own
                    if fans:
                        accn = accn + [name]
                    if kind != "cont":
                        out[name] = (acc, list(accn))
        return acc, accn

    walk(tree, 1, [])
    return out


def build_arch(tree):
    """Construct the real accelforge Arch (public constructors) for a tree."""
    from accelforge.frontend.arch import Arch, Compute, Container, Fork, Hierarchical, Memory, Toll

    def spatial(name, fans):
        # dimension names repeat across nodes (X, Y, ... as in tests/network/input_files): instance
        # counts multiply per node, not per distinct dimension name
        return [{"name": "XYZW"[i], "fanout": f} for i, f in enumerate(fans)]

    def mk(items):
        nodes = []
        for it in items:
            kind = it[0]
            if kind == "fork":
                nodes.append(Fork(nodes=mk(it[1])))
            elif kind == "hier":
                nodes.append(Hierarchical(nodes=mk(it[1])))
            else:
                _, name, fans = it
                if kind == "mem":
                    nodes.append(Memory(name=name, size=float("inf"), area=1, leak_power=1,
                                        tensors={"keep": "All"} if name == "M0" else {"keep": "Nothing", "may_keep": "All"},
                                        actions=[{"name": "read", "energy": 1, "throughput": 1},
                                                 {"name": "write", "energy": 1, "throughput": 1}],
                                        spatial=spatial(name, fans)))
                elif kind == "toll":
                    nodes.append(Toll(name=name, direction="up_and_down", area=1, leak_power=1,
                                      tensors={"keep": "Nothing", "may_keep": "All"},
                                      actions=[{"name": "read", "energy": 1, "throughput": 1}],
                                      spatial=spatial(name, fans)))
                elif kind == "cont":
                    nodes.append(Container(name=name, spatial=spatial(name, fans)))
                elif kind == "comp":
                    nodes.append(Compute(name=name, area=1, leak_power=1,
                                         actions=[{"name": "compute", "energy": 1, "throughput": 1}],
                                         spatial=spatial(name, fans)))
                else:
                    raise ValueError(kind)
        return nodes

    return Arch(nodes=mk(tree))


def tree_str(tree):
    def s(items):
        parts = []
        for it in items:
            if it[0] in ("fork", "hier"):
                parts.append(f"{it[0]}[{s(it[1])}]")
            else:
                f = "x".join(map(str, it[2]))
                parts.append(f"{it[0]}:{it[1]}" + (f"*{f}" if f else ""))
        return " ".join(parts)
    return s(tree)


def gen_trees(n, seed, max_depth=4):
    """n random trees from the grammar (deterministic for a seed) preceded by a fixed set of
    hand-picked shapes that place a fan-out on every kind of node at every position."""
    rng = random.Random(seed)
    trees = []

    class Namer:
        def __init__(self):
            self.c = {"mem": 0, "toll": 0, "cont": 0, "comp": 0}
            self.p = iter(PRIMES)

        def leaf(self, kind, fan):
            n = {"mem": "M", "toll": "T", "cont": "C", "comp": "X"}[kind] + str(self.c[kind])
            self.c[kind] += 1
            fans = []
            for _ in range(fan):
                f = next(self.p, None)
                if f is None:
                    raise OutOfPrimes()
                fans.append(f)
            return (kind, n, tuple(fans))

    # fixed shapes -------------------------------------------------------------------------
    def fixed(spec):
        nm = Namer()

        def conv(items):
            out = []
            for it in items:
                if isinstance(it, tuple) and it[0] in ("fork", "hier"):
                    out.append((it[0], conv(it[1])))
                else:
                    kind, fan = it
                    out.append(nm.leaf(kind, fan))
            return out
        return conv(spec)

    F = [
        [("mem", 0), ("cont", 1), ("comp", 0)],                                   # the tested shape
        [("mem", 0), ("mem", 1), ("comp", 0)],                                    # own fan-out on a memory
        [("mem", 0), ("comp", 1)],                                                # own fan-out on the compute
        [("mem", 0), ("toll", 1), ("mem", 0), ("comp", 0)],                       # fan-out on a toll
        [("mem", 1), ("mem", 1), ("cont", 1), ("comp", 1)],                       # everywhere
        [("mem", 0), ("comp", 1), ("cont", 1), ("comp", 0)],                      # sibling compute with fan-out
        [("mem", 0), ("fork", [("comp", 1)]), ("cont", 1), ("comp", 0)],          # fork side branch
        [("mem", 0), ("mem", 1), ("fork", [("cont", 1), ("mem", 1), ("comp", 1)]), ("cont", 1), ("mem", 0), ("comp", 1)],
        [("mem", 0), ("hier", [("cont", 1), ("mem", 1)]), ("comp", 0)],           # nested hierarchy continues the path
        [("mem", 0), ("hier", [("mem", 1), ("fork", [("mem", 1), ("comp", 0)])]), ("mem", 2), ("comp", 0)],
        [("mem", 0), ("cont", 2), ("mem", 0), ("comp", 0)],                       # two dims on one node
        [("mem", 0), ("fork", [("mem", 1), ("fork", [("comp", 1)]), ("comp", 0)]), ("mem", 1), ("comp", 0)],
    ]
    for f in F:
        trees.append(fixed(f))

    # random shapes ------------------------------------------------------------------------
    def rand_items(nm, depth, top):
        items = []
        k = rng.randint(1, 4)
        for _ in range(k):
            r = rng.random()
            if r < 0.18 and depth < max_depth:
                items.append(("fork", rand_items(nm, depth + 1, False)))
            elif r < 0.28 and depth < max_depth:
                sub = rand_items(nm, depth + 1, False)
                sub = [x for x in sub if not (x[0] == "comp")] or [nm.leaf("mem", rng.randint(0, 1))]
                items.append(("hier", sub))
            elif r < 0.40:
                items.append(nm.leaf("comp", rng.randint(0, 1)))     # sibling compute
            else:
                kind = rng.choice(["mem", "mem", "toll", "cont", "cont"])
                items.append(nm.leaf(kind, rng.choice([0, 1, 1, 2])))
        items.append(nm.leaf("comp", rng.randint(0, 1)))
        return items

    seen = set(tree_str(t) for t in trees)
    tries = 0
    while len(trees) < n and tries < 50 * n:
        tries += 1
        nm = Namer()
        try:
            t = [nm.leaf("mem", 0)] + rand_items(nm, 1, True)
        except OutOfPrimes:
            continue
        s = tree_str(t)
        if s not in seen:
            seen.add(s)
            trees.append(t)
    return trees[:n]
