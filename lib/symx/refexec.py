"""Operational reference for the model checks (C05/C19/C31): a loop-nest executor written from the
property statement.  Two implementations of the same semantics:

* `reference_z3`  — the loops are unrolled over concrete index tuples 0..K-1, each tuple guarded by
  i_j < n_j with SYMBOLIC trip counts n_j; counts are z3 integer terms sum(ite(guard, 1, 0))*tile;
* `simulate`      — a deliberately naive concrete simulator (used to replay solver models and to
  validate the symbolic reference on concrete points): it walks the iteration space tuple by
  tuple, keeps for every holder the tile it currently holds and a set of output tiles that have
  been written before.

Semantics (values, before the values->actions conversion):
  - a holder (or the compute) is *visited* once per iteration tuple of ALL loops above it;
  - on every visit it fetches its tile from its parent holder (parent read, own fill/write);
    for an output tensor the fill is skipped on the first visit of that tile (no value has been
    written yet) when the fetching component's skip_initial_output_write is set; the parent's
    read of that initial value is skipped only if the PARENT's flag is set as well (each
    component's flag governs its own actions - the semantics pinned by
    tests/test_model.py::test_skip_initial_output_write_false);
  - on every visit an output tile is written back at the end (own read, parent write);
  - a Toll is transparent: the transfer happens between the memories around it; the Toll charges
    one read per value crossing it in its configured direction(s), nothing else;
  - the compute is the innermost child with a tile of one value per operand."""
from __future__ import annotations

import itertools

import z3

from lib.symx.model import ARCHS, WORKLOADS, loops_of


def _struct(sk, arch_kind, wl_kind):
    ename, tensors, outs, rvs = WORKLOADS[wl_kind]
    kinds = {nm: k for k, nm in ARCHS[arch_kind]}
    comp = [nm for k, nm in ARCHS[arch_kind] if k == "comp"][0]
    L = loops_of(sk)
    chains = {}
    for t in tensors:
        chains[t] = [(i, it[1]) for i, it in enumerate(sk) if it[0] == "S" and it[2] == t] + [(len(sk), comp)]
    return ename, tensors, outs, rvs, kinds, comp, L, chains


def tensor_rvs(dims):
    return {v for d in dims for v in d}


def transfers(sk, arch_kind, wl_kind):
    """For every tensor: list of (parent memory, child (memory|compute), child position,
    [tolls between them]).  The parent of the outermost holder does not exist."""
    ename, tensors, outs, rvs, kinds, comp, L, chains = _struct(sk, arch_kind, wl_kind)
    out = {}
    for t, chain in chains.items():
        res = []
        parent = None
        tolls = []
        for pos, c in chain:
            if kinds[c] == "toll":
                tolls.append(c)
                continue
            if parent is not None:
                res.append((parent, c, pos, list(tolls)))
            elif tolls:
                # a Toll with no memory above it: nothing moves through it from above
                pass
            parent = c
            tolls = []
        out[t] = res
    return out


def vpa_mode_of(choice, comp, action, tensor):
    """documented precedence: action.values_per_action[tensor] > component.values_per_action[tensor]
    > action.bits_per_action / bits_per_value[tensor]."""
    if choice.get(("a", comp, action, tensor)):
        return "action"
    if choice.get(("c", comp, tensor)):
        return "comp"
    return "bpa"


# ---------------------------------------------------------------------------------------------
def reference_z3(sk, arch_kind, wl_kind, arch_opts, nvar, K, doc_skip=True):
    """nvar: {loop index in sk: z3 Int}.  Returns (values, computes) where
    values[(component, tensor, 'read'|'write')] is a z3 Int term (number of VALUES moved) and
    computes a z3 Int term.  doc_skip: the first-fetch skip is decided by the fetching
    component's flag alone (documentation); False: parent read discount additionally needs the
    parent's flag (used only by the seeded-mutant twin)."""
    ename, tensors, outs, rvs, kinds, comp, L, chains = _struct(sk, arch_kind, wl_kind)
    skip = arch_opts.get("skip", {})
    direction = arch_opts.get("toll_dir", "up_and_down")
    values = {}

    def add(k, v):
        values[k] = values[k] + v if k in values else v

    def ext(v, pos):
        r = z3.IntVal(1)
        for j in L:
            if j > pos and sk[j][1] == v:
                r = r * nvar[j]
        return r

    def tile(t, pos):
        if pos >= len(sk):
            return z3.IntVal(1)
        r = z3.IntVal(1)
        for d in tensors[t]:
            if len(d) == 1:
                r = r * ext(d[0], pos)
            else:
                r = r * (z3.Sum([ext(v, pos) - 1 for v in d]) + 1)
        return r

    count_cache = {}

    def count(above, zero_required):
        """number of valid iteration tuples of the loops `above`; `zero_required`: loops whose
        index must NOT all be zero (None: no condition) -> counts the non-first visits."""
        key = (tuple(above), None if zero_required is None else tuple(zero_required))
        if key in count_cache:
            return count_cache[key]
        terms = []
        for idx in itertools.product(range(K), repeat=len(above)):
            if zero_required is not None and all(i == 0 for i, j in zip(idx, above) if j in zero_required):
                continue        # the first visit of this tile
            g = [z3.IntVal(i) < nvar[j] for i, j in zip(idx, above) if i > 0]
            terms.append(z3.If(z3.And(g), 1, 0) if g else z3.IntVal(1))
        r = z3.Sum(terms) if terms else z3.IntVal(0)
        count_cache[key] = r
        return r

    for t, trs in transfers(sk, arch_kind, wl_kind).items():
        trv = tensor_rvs(tensors[t])
        for parent, child, pos, tolls in trs:
            above = [j for j in L if j < pos]
            irrel = [j for j in above if sk[j][1] not in trv]
            tl = tile(t, pos)
            visits = count(above, None)
            is_out = t in outs
            if is_out and skip.get(child, True):
                fetches = count(above, irrel)           # every visit but the first of each tile
            else:
                fetches = visits
            if is_out and not doc_skip and not skip.get(parent, True):
                parent_reads = visits
            else:
                parent_reads = fetches
            add((parent, t, "read"), parent_reads * tl)
            if kinds[child] != "comp":
                add((child, t, "write"), fetches * tl)
            wb = visits if is_out else None
            if wb is not None:
                if kinds[child] != "comp":
                    add((child, t, "read"), wb * tl)
                add((parent, t, "write"), wb * tl)
            for tc in tolls:
                d = direction[t] if isinstance(direction, dict) else direction
                cross = z3.IntVal(0)
                if d in ("down", "up_and_down"):
                    cross = cross + fetches * tl
                if d in ("up", "up_and_down") and wb is not None:
                    cross = cross + wb * tl
                add((tc, t, "read"), cross)
    computes = count(L, None)
    return values, computes


# ---------------------------------------------------------------------------------------------
def simulate(sk, arch_kind, wl_kind, arch_opts, trips):
    """Concrete, naive: trips {loop index: int}.  Returns (values dict, computes)."""
    ename, tensors, outs, rvs, kinds, comp, L, chains = _struct(sk, arch_kind, wl_kind)
    skip = arch_opts.get("skip", {})
    direction = arch_opts.get("toll_dir", "up_and_down")
    values = {}

    def add(k, v):
        values[k] = values.get(k, 0) + v

    def ext(v, pos):
        r = 1
        for j in L:
            if j > pos and sk[j][1] == v:
                r *= trips[j]
        return r

    def tile(t, pos):
        if pos >= len(sk):
            return 1
        r = 1
        for d in tensors[t]:
            r *= (sum(ext(v, pos) - 1 for v in d) + 1)
        return r

    trs = transfers(sk, arch_kind, wl_kind)
    written = {}          # (tensor, child, pos) -> set of tile ids seen (written back) before
    computes = 0
    prev = None
    for idx in itertools.product(*[range(trips[j]) for j in L]):
        cur = dict(zip(L, idx))
        # which loops advanced since the previous tuple (everything at or below the outermost change)
        if prev is None:
            changed_from = -1
        else:
            changed_from = min(j for j in L if cur[j] != prev[j])
        for t, lst in trs.items():
            trv = tensor_rvs(tensors[t])
            for parent, child, pos, tolls in lst:
                above = [j for j in L if j < pos]
                # a new visit of this child starts iff one of the loops above it advanced
                if prev is not None and not any(j >= changed_from for j in above):
                    continue
                tl = tile(t, pos)
                tid = tuple(cur[j] for j in above if sk[j][1] in trv)
                key = (t, child, pos)
                is_out = t in outs
                first = tid not in written.setdefault(key, set())
                fetch = not (is_out and first and skip.get(child, True))
                # the parent's read-out of the initial value is governed by the PARENT's flag
                # (pinned by tests/test_model.py::test_skip_initial_output_write_false)
                parent_read = fetch or not skip.get(parent, True)
                if parent_read:
                    add((parent, t, "read"), tl)
                if fetch and kinds[child] != "comp":
                    add((child, t, "write"), tl)
                if is_out:
                    written[key].add(tid)
                    if kinds[child] != "comp":
                        add((child, t, "read"), tl)
                    add((parent, t, "write"), tl)
                for tc in tolls:
                    d = direction[t] if isinstance(direction, dict) else direction
                    if fetch and d in ("down", "up_and_down"):
                        add((tc, t, "read"), tl)
                    if is_out and d in ("up", "up_and_down"):
                        add((tc, t, "read"), tl)
        computes += 1
        prev = cur
    return values, computes


# =============================================================================================
# C06: occupancy by element liveness
# =============================================================================================
def holders_by_memory(sk, arch_kind, wl_kind):
    """memory -> list of (position, tensor, is_backing) ; Tolls hold nothing."""
    ename, tensors, outs, rvs, kinds, comp, L, chains = _struct(sk, arch_kind, wl_kind)
    out = {}
    seen = set()
    for i, it in enumerate(sk):
        if it[0] != "S":
            continue
        backing = it[2] not in seen
        seen.add(it[2])
        if kinds[it[1]] == "mem":
            out.setdefault(it[1], []).append((i, it[2], backing))
    return out


def liveness_z3(sk, arch_kind, wl_kind, nvar, K, persistent=(), n_inst=None):
    """Returns {memory: (list of per-time-step occupancy terms in VALUES per tensor -> dict)}.
    For every memory: list over guarded time steps tau of (guard, {tensor: z3 Int live values}).
    Semantics: the outermost (backing) holder of a tensor keeps its whole tile during its visit;
    every other holder keeps element e from its first to its last use inside the current visit.
    Element e of a holder = one digit per RELEVANT loop below the holder; it is used at the steps
    whose relevant digits equal e's digits, so first use = (e's digits, 0 on irrelevant loops) and
    last use = (e's digits, n_j - 1 on irrelevant loops); live at tau <=> first <= tau <= last
    (lexicographic = program order)."""
    ename, tensors, outs, rvs, kinds, comp, L, chains = _struct(sk, arch_kind, wl_kind)
    hb = holders_by_memory(sk, arch_kind, wl_kind)
    simple = all(len(d) == 1 for t in tensors for d in tensors[t])
    if not simple:
        raise NotImplementedError("element liveness is encoded for plain projections only")

    def ext(v, pos):
        r = z3.IntVal(1)
        for j in L:
            if j > pos and sk[j][1] == v:
                r = r * nvar[j]
        return r

    def tile(t, pos):
        r = z3.IntVal(1)
        for d in tensors[t]:
            r = r * ext(d[0], pos)
        return r

    def lex_le(a, b):
        """a <= b lexicographically; entries are python ints or z3 terms."""
        if not a:
            return z3.BoolVal(True)
        x, y = a[0], b[0]
        lt = (x < y) if not (isinstance(x, int) and isinstance(y, int)) else z3.BoolVal(x < y)
        eq = (x == y) if not (isinstance(x, int) and isinstance(y, int)) else z3.BoolVal(x == y)
        return z3.Or(lt, z3.And(eq, lex_le(a[1:], b[1:])))

    result = {}
    steps = list(itertools.product(range(K), repeat=len(L)))
    for mem, hs in hb.items():
        per_step = []
        live_cache = {}
        for tau in steps:
            g = z3.And([z3.IntVal(i) < nvar[j] for i, j in zip(tau, L) if i > 0]) if any(tau) else z3.BoolVal(True)
            occ = {}
            for pos, t, backing in hs:
                trv = tensor_rvs(tensors[t])
                if backing:
                    v = tile(t, pos)
                    if t in persistent and n_inst is not None:
                        v = v * n_inst
                else:
                    below = [(k, j) for k, j in enumerate(L) if j > pos]
                    key = (pos, t, tuple(tau[k] for k, j in below))
                    if key not in live_cache:
                        rel = [(k, j) for k, j in below if sk[j][1] in trv]
                        terms = []
                        for e in itertools.product(range(K), repeat=len(rel)):
                            ed = dict(zip([k for k, j in rel], e))
                            ge = [z3.IntVal(x) < nvar[j] for x, (k, j) in zip(e, rel) if x > 0]
                            first = [ed.get(k, 0) for k, j in below]
                            last = [ed[k] if k in ed else nvar[j] - 1 for k, j in below]
                            cur = [tau[k] for k, j in below]
                            cond = z3.And(*(ge + [lex_le(first, cur), lex_le(cur, last)]))
                            terms.append(z3.If(cond, 1, 0))
                        live_cache[key] = z3.Sum(terms) if terms else z3.IntVal(1)
                    v = live_cache[key]
                occ[t] = occ[t] + v if t in occ else v
            per_step.append((g, occ))
        result[mem] = per_step
    return result


def liveness_concrete(sk, arch_kind, wl_kind, trips, persistent=(), n_inst=1):
    """Naive element-level simulation: {memory: peak over time of {tensor: live values}} is not
    separable per tensor, so returns {memory: list over time of {tensor: values}}."""
    ename, tensors, outs, rvs, kinds, comp, L, chains = _struct(sk, arch_kind, wl_kind)
    hb = holders_by_memory(sk, arch_kind, wl_kind)
    steps = list(itertools.product(*[range(trips[j]) for j in L]))

    def coord(step, rv):
        c = 0
        for j, i in zip(L, step):
            if sk[j][1] == rv:
                c = c * trips[j] + i
        return c

    out = {}
    for mem, hs in hb.items():
        series = [dict() for _ in steps]
        for pos, t, backing in hs:
            above = [k for k, j in enumerate(L) if j < pos]
            uses = {}
            for ti, st in enumerate(steps):
                visit = tuple(st[k] for k in above)
                e = tuple(sum(coord(st, v) for v in d) for d in tensors[t])
                fl = uses.setdefault(visit, {}).setdefault(e, [ti, ti])
                fl[1] = ti
            for ti, st in enumerate(steps):
                visit = tuple(st[k] for k in above)
                if backing:
                    n = len(uses[visit]) * (n_inst if t in persistent else 1)
                else:
                    n = sum(1 for e, (f, l) in uses[visit].items() if f <= ti <= l)
                series[ti][t] = series[ti].get(t, 0) + n
        out[mem] = series
    return out
