"""Symbolic numbers for running real arithmetic code directly on z3 terms, with path forking.

`Z` wraps a z3 Int/Real term and implements Python's numeric protocol (+ - * / // % ** abs,
comparisons).  A comparison yields a `ZBool`; using a `ZBool` as a Python truth value (an `if`, a
`max()`, an `and`) asks the current exploration context for a decision.  `explore(fn, assumptions)`
re-runs `fn` once per feasible path (depth-first over the decisions, infeasible branches pruned
with the solver) and returns [(path condition, result)], i.e. a small symbolic executor for
straight-line arithmetic with data-dependent branches.  Mathematical integers / reals; Python floats
are read as exact rationals."""
from __future__ import annotations

from fractions import Fraction

import z3


class SymbolicBranchBudget(Exception):
    pass


class _Ctx:
    def __init__(self, prefix, solver, max_decisions):
        self.prefix = list(prefix)
        self.decisions = []
        self.terms = []
        self.solver = solver
        self.max_decisions = max_decisions

    def conds(self):
        return [t if d else z3.Not(t) for t, d in zip(self.terms, self.decisions)]

    def decide(self, t):
        t = z3.simplify(t)
        if z3.is_true(t):
            return True
        if z3.is_false(t):
            return False
        i = len(self.decisions)
        if i >= self.max_decisions:
            raise SymbolicBranchBudget(f"more than {self.max_decisions} symbolic branches on one path")
        if i < len(self.prefix):
            d = self.prefix[i]
        else:
            self.solver.push()
            self.solver.add(self.conds() + [t])
            feasible_true = str(self.solver.check()) != "unsat"
            self.solver.pop()
            d = feasible_true
        self.decisions.append(d)
        self.terms.append(t)
        return d


_CTX = None


def _lift(x):
    if isinstance(x, Z):
        return x.t
    if isinstance(x, bool):
        return z3.IntVal(int(x))
    if isinstance(x, int):
        return z3.IntVal(x)
    if isinstance(x, float):
        if x != x or x in (float("inf"), float("-inf")):
            raise TypeError("non-finite float in symbolic arithmetic")
        return z3.RealVal(Fraction(x))
    if isinstance(x, Fraction):
        return z3.RealVal(x)
    if z3.is_expr(x):
        return x
    return None


def _both(a, b):
    if z3.is_int(a) and z3.is_real(b):
        a = z3.ToReal(a)
    elif z3.is_real(a) and z3.is_int(b):
        b = z3.ToReal(b)
    return a, b


class ZBool:
    def __init__(self, t):
        self.t = t

    def __bool__(self):
        if _CTX is None:
            raise TypeError("symbolic truth value outside explore()")
        return _CTX.decide(self.t)

    def __and__(self, o):
        return ZBool(z3.And(self.t, o.t if isinstance(o, ZBool) else z3.BoolVal(bool(o))))

    def __or__(self, o):
        return ZBool(z3.Or(self.t, o.t if isinstance(o, ZBool) else z3.BoolVal(bool(o))))

    def __invert__(self):
        return ZBool(z3.Not(self.t))


class Z:
    __slots__ = ("t",)

    def __init__(self, t):
        self.t = t

    # ---- arithmetic ----------------------------------------------------------------------
    def _bin(self, o, f, swap=False):
        b = _lift(o)
        if b is None:
            return NotImplemented
        a, b = _both(self.t, b)
        return Z(f(b, a) if swap else f(a, b))

    def __add__(self, o): return self._bin(o, lambda a, b: a + b)
    def __radd__(self, o): return self._bin(o, lambda a, b: a + b, True)
    def __sub__(self, o): return self._bin(o, lambda a, b: a - b)
    def __rsub__(self, o): return self._bin(o, lambda a, b: a - b, True)
    def __mul__(self, o): return self._bin(o, lambda a, b: a * b)
    def __rmul__(self, o): return self._bin(o, lambda a, b: a * b, True)
    def __neg__(self): return Z(-self.t)
    def __pos__(self): return self

    @staticmethod
    def _truediv(a, b):
        a = z3.ToReal(a) if z3.is_int(a) else a
        b = z3.ToReal(b) if z3.is_int(b) else b
        return a / b

    def __truediv__(self, o): return self._bin(o, Z._truediv)
    def __rtruediv__(self, o): return self._bin(o, Z._truediv, True)

    @staticmethod
    def _floordiv(a, b):
        # Python floor division.  Int/Int: z3 `div` rounds towards -inf for a positive divisor
        # (Euclidean); for a negative divisor adjust.  Real: floor of the quotient (same value
        # Python returns, as a float).
        if z3.is_int(a) and z3.is_int(b):
            q = a / b
            return z3.If(b > 0, q, z3.If(a % b == 0, q, q - 1))      # z3 div: a = b*q + r, 0 <= r < |b|
        return z3.ToInt(Z._truediv(a, b))

    def __floordiv__(self, o): return self._bin(o, Z._floordiv)
    def __rfloordiv__(self, o): return self._bin(o, Z._floordiv, True)

    @staticmethod
    def _mod(a, b):
        if z3.is_int(a) and z3.is_int(b):
            r = a % b                                            # 0 <= r < |b|
            return z3.If(z3.Or(b > 0, r == 0), r, r + b)         # Python: sign of the divisor
        q = z3.ToReal(z3.ToInt(Z._truediv(a, b)))
        a2, b2 = _both(a, b)
        return (z3.ToReal(a2) if z3.is_int(a2) else a2) - q * (z3.ToReal(b2) if z3.is_int(b2) else b2)

    def __mod__(self, o): return self._bin(o, Z._mod)
    def __rmod__(self, o): return self._bin(o, Z._mod, True)

    def __pow__(self, o):
        if isinstance(o, int) and 0 <= o <= 8:
            r = Z(z3.IntVal(1))
            for _ in range(o):
                r = r * self
            return r
        if isinstance(o, int) and -8 <= o < 0:
            return 1 / (self ** (-o))
        return NotImplemented

    def __abs__(self): return Z(z3.If(self.t >= 0, self.t, -self.t))

    # ---- comparisons ---------------------------------------------------------------------
    def _cmp(self, o, f):
        b = _lift(o)
        if b is None:
            return NotImplemented
        a, b = _both(self.t, b)
        return ZBool(f(a, b))

    def __lt__(self, o): return self._cmp(o, lambda a, b: a < b)
    def __le__(self, o): return self._cmp(o, lambda a, b: a <= b)
    def __gt__(self, o): return self._cmp(o, lambda a, b: a > b)
    def __ge__(self, o): return self._cmp(o, lambda a, b: a >= b)
    def __eq__(self, o): return self._cmp(o, lambda a, b: a == b)
    def __ne__(self, o): return self._cmp(o, lambda a, b: a != b)
    __hash__ = None

    def __bool__(self):
        return bool(self != 0)

    def __int__(self): raise TypeError("int() of a symbolic number")
    def __float__(self): raise TypeError("float() of a symbolic number")
    def __index__(self): raise TypeError("symbolic number used as an index")
    def __repr__(self): return f"Z({self.t})"


def term(x):
    """python number | Z -> z3 term"""
    t = _lift(x)
    if t is None:
        raise TypeError(f"not a number: {type(x).__name__}")
    return t


def explore(fn, assumptions, max_paths=64, max_decisions=12):
    """Runs fn() once per feasible path.  Returns [(list of z3 path conditions, result)]."""
    global _CTX
    solver = z3.Solver()
    solver.add(assumptions)
    out = []
    stack = [[]]
    while stack:
        if len(out) >= max_paths:
            raise SymbolicBranchBudget(f"more than {max_paths} paths")
        prefix = stack.pop()
        ctx = _Ctx(prefix, solver, max_decisions)
        _CTX = ctx
        try:
            res = fn()
        finally:
            _CTX = None
        out.append((ctx.conds(), res))
        for i in range(len(prefix), len(ctx.decisions)):
            alt = ctx.decisions[:i] + [not ctx.decisions[i]]
            conds = [t if d else z3.Not(t) for t, d in zip(ctx.terms[:i + 1], alt)]
            solver.push()
            solver.add(conds)
            ok = str(solver.check()) != "unsat"
            solver.pop()
            if ok:
                stack.append(alt)
    return out
