"""sympy / symengine expression -> z3 term (Route A translator, DESIGN.md section 1).

Integers are mathematical integers, everything else is a real.  Floats are read as the exact
rational they denote.  `ceiling`/`floor` introduce a fresh Int with the defining inequalities
(collected in `Tr.side`), `Max/Min/Heaviside/Piecewise` become ite.  Division is z3 real division;
every denominator the model emits is a product of positive symbols, and `Tr.denoms` collects the
denominators so that callers can assert them non-zero (they do)."""
from __future__ import annotations

from fractions import Fraction

import sympy
import z3


class Unsupported(Exception):
    pass


def to_sympy(e):
    """symengine or python number -> sympy (structure preserving)."""
    if isinstance(e, sympy.Basic):
        return e
    try:
        import symengine
        if isinstance(e, symengine.Basic):
            return e._sympy_()
    except ImportError:
        pass
    return sympy.sympify(e)


class Tr:
    def __init__(self, env=None, int_symbols=True, prefix=""):
        self.env = dict(env or {})      # name -> z3 term
        self.side = []                  # side constraints (ceil/floor definitions)
        self.denoms = []                # denominators seen
        self.fresh = 0
        self.int_symbols = int_symbols
        self.prefix = prefix
        self._cache = {}

    # -- variables ---------------------------------------------------------------------------
    def var(self, s: sympy.Symbol):
        n = s.name
        if n not in self.env:
            if self.int_symbols and s.is_integer:
                self.env[n] = z3.Int(self.prefix + n)
            else:
                self.env[n] = z3.Real(self.prefix + n)
        return self.env[n]

    def _fresh_int(self, tag):
        self.fresh += 1
        return z3.Int(f"{self.prefix}__{tag}{self.fresh}")

    # -- main --------------------------------------------------------------------------------
    def __call__(self, e):
        e = to_sympy(e)
        return self._tr(e)

    def _real(self, t):
        if z3.is_int(t):
            return z3.ToReal(t)
        return t

    def _tr(self, e):
        k = e
        if k in self._cache:
            return self._cache[k]
        r = self._tr0(e)
        self._cache[k] = r
        return r

    def _tr0(self, e):
        if e.is_Symbol:
            return self.var(e)
        if e.is_Integer:
            return z3.IntVal(int(e))
        if e.is_Rational:
            return z3.RealVal(Fraction(int(e.p), int(e.q)))
        if e.is_Float:
            return z3.RealVal(Fraction(float(e)))
        if e is sympy.S.Infinity or e is sympy.S.NegativeInfinity or e is sympy.S.NaN or e is sympy.S.ComplexInfinity:
            raise Unsupported(f"non-finite constant {e}")
        if e.is_Add:
            args = [self._tr(a) for a in e.args]
            if any(z3.is_real(a) for a in args):
                args = [self._real(a) for a in args]
            return z3.Sum(args)
        if e.is_Mul:
            num = []
            den = []
            for a in e.args:
                if a.is_Pow and a.args[1].is_Integer and int(a.args[1]) < 0:
                    b = self._tr(a.args[0])
                    for _ in range(-int(a.args[1])):
                        den.append(b)
                else:
                    num.append(self._tr(a))
            if den or any(z3.is_real(a) for a in num):
                num = [self._real(a) for a in num]
            r = num[0] if num else z3.RealVal(1)
            for a in num[1:]:
                r = r * a
            if den:
                d = self._real(den[0])
                for a in den[1:]:
                    d = d * self._real(a)
                self.denoms.append(d)
                r = self._real(r) / d
            return r
        if e.is_Pow:
            b, x = e.args
            if x.is_Integer:
                n = int(x)
                bt = self._tr(b)
                if n >= 0:
                    r = z3.IntVal(1) if z3.is_int(bt) else z3.RealVal(1)
                    for _ in range(n):
                        r = r * bt
                    return r
                d = self._real(bt)
                for _ in range(-n - 1):
                    d = d * self._real(bt)
                self.denoms.append(d)
                return z3.RealVal(1) / d
            raise Unsupported(f"non-integer power {e}")
        if isinstance(e, sympy.Max) or isinstance(e, sympy.Min):
            args = [self._tr(a) for a in e.args]
            if any(z3.is_real(a) for a in args):
                args = [self._real(a) for a in args]
            r = args[0]
            for a in args[1:]:
                r = z3.If(a >= r, a, r) if isinstance(e, sympy.Max) else z3.If(a <= r, a, r)
            return r
        if isinstance(e, sympy.ceiling) or isinstance(e, sympy.floor):
            x = self._tr(e.args[0])
            if z3.is_int(x):
                return x
            c = self._fresh_int("ceil" if isinstance(e, sympy.ceiling) else "floor")
            cr = z3.ToReal(c)
            if isinstance(e, sympy.ceiling):
                self.side.append(z3.And(cr - 1 < x, x <= cr))
            else:
                self.side.append(z3.And(cr <= x, x < cr + 1))
            return c
        if isinstance(e, sympy.Heaviside):
            x = self._tr(e.args[0])
            # sympy default H(0) = 1/2 unless a second argument is given
            h0 = self._tr(e.args[1]) if len(e.args) > 1 else z3.RealVal(Fraction(1, 2))
            return z3.If(x > 0, z3.RealVal(1), z3.If(x < 0, z3.RealVal(0), self._real(h0)))
        if isinstance(e, sympy.Abs):
            x = self._tr(e.args[0])
            return z3.If(x >= 0, x, -x)
        if isinstance(e, sympy.Piecewise):
            r = None
            for val, cond in reversed(e.args):
                v = self._real(self._tr(val))
                if cond is sympy.true:
                    r = v
                else:
                    c = self.cond(cond)
                    r = z3.If(c, v, r if r is not None else z3.RealVal(0))
            return r
        if isinstance(e, sympy.Mod):
            a, b = (self._tr(x) for x in e.args)
            if z3.is_int(a) and z3.is_int(b):
                return a % b
            raise Unsupported(f"real Mod {e}")
        raise Unsupported(f"{type(e).__name__}: {e}")

    def cond(self, c):
        if c is sympy.true:
            return z3.BoolVal(True)
        if c is sympy.false:
            return z3.BoolVal(False)
        if isinstance(c, sympy.And):
            return z3.And([self.cond(a) for a in c.args])
        if isinstance(c, sympy.Or):
            return z3.Or([self.cond(a) for a in c.args])
        if isinstance(c, sympy.Not):
            return z3.Not(self.cond(c.args[0]))
        a, b = self._tr(c.args[0]), self._tr(c.args[1])
        if z3.is_real(a) or z3.is_real(b):
            a, b = self._real(a), self._real(b)
        if isinstance(c, sympy.Eq):
            return a == b
        if isinstance(c, sympy.Ne):
            return a != b
        if isinstance(c, sympy.Ge):
            return a >= b
        if isinstance(c, sympy.Gt):
            return a > b
        if isinstance(c, sympy.Le):
            return a <= b
        if isinstance(c, sympy.Lt):
            return a < b
        raise Unsupported(f"condition {c}")

    def constraints(self):
        """Side constraints: ceil/floor definitions and non-zero denominators."""
        return list(self.side) + [d != 0 for d in self.denoms]


def model_value(m, t):
    """z3 model value -> Fraction (ints and rationals) or None."""
    v = m.eval(t, model_completion=True)
    if z3.is_int_value(v):
        return Fraction(v.as_long())
    if z3.is_rational_value(v):
        return Fraction(v.numerator_as_long(), v.denominator_as_long())
    if z3.is_algebraic_value(v):
        a = v.approx(20)
        return Fraction(a.numerator_as_long(), a.denominator_as_long())
    return None


def numeric_witness(expr, tries=40, seed=0, integer_prefixes=("B_", "stride", "initial", "n", "N_")):
    """Fallback when the solver answers `unknown` on `expr != 0`: evaluate the sympy expression
    at a few positive points with exact rationals.  A point where it is non-zero is a definite
    counterexample (it is replayed like a solver model); finding none proves nothing."""
    import random
    from fractions import Fraction as F
    e = to_sympy(expr)
    syms = sorted(e.free_symbols, key=lambda s: s.name)
    rng = random.Random(seed)
    for _ in range(tries):
        pt = {}
        for s in syms:
            if s.name.startswith(integer_prefixes) and not s.name.startswith("n_"):
                pt[s] = sympy.Integer(rng.choice([1, 2, 3, 4, 6, 8, 12]))
            else:
                pt[s] = sympy.Rational(rng.choice([1, 2, 3, 5, 7, 11]), rng.choice([1, 2, 3]))
        try:
            v = e.subs(pt)
            v = sympy.nsimplify(v) if v.is_number else v
        except Exception:  # noqa
            continue
        if v.is_number and v != 0 and v.is_finite:
            return {s.name: (int(x) if x.is_Integer else float(x)) for s, x in pt.items()}, v
    return None, None
