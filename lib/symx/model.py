"""Route A harness for the analytical model (C05, C06, C19, C31, C28-producer): builds real specs
and mappings through the public constructors, runs the real `evaluate_mapping` with a wrapper
around `accelforge.model.run_model.run_model` that swaps every numeric input for a sympy symbol,
and returns the closed-form outputs together with the structure needed by the reference executor.

Skeleton = list of items
    ("S", component, tensor)     a holder of one tensor (Storage for memories, Toll for tolls)
    ("L", rank_variable)         a temporal loop
The trailing Compute node is implicit.  The innermost loop of every rank variable has tile shape
1, every other loop has the literal tile shape "symbol"."""
from __future__ import annotations

import itertools
import random
from dataclasses import dataclass, field
from unittest import mock

import sympy

# ---------------------------------------------------------------------------------------------
# workloads
# ---------------------------------------------------------------------------------------------
WORKLOADS = {
    # name: (einsum name, {tensor: [rank expr per dim as tuple of rank variables]}, outputs, rank variables)
    "MM": ("E", {"T0": [("m",), ("n0",)], "W0": [("n0",), ("n1",)], "T1": [("m",), ("n1",)]}, {"T1"}, ["m", "n0", "n1"]),
    "MV": ("E", {"A": [("m",), ("k",)], "x": [("k",)], "y": [("m",)]}, {"y"}, ["m", "k"]),
    "CONV1": ("E", {"I": [("p", "r")], "W": [("r",)], "O": [("p",)]}, {"O"}, ["p", "r"]),
}


def workload_dict(kind, bounds, n_instances=1, einsum_n_instances=1, persistent=()):
    ename, tensors, outs, rvs = WORKLOADS[kind]
    acc = []
    for t, dims in tensors.items():
        if all(len(d) == 1 for d in dims):
            proj = [d[0] for d in dims]
        else:
            proj = {f"R{t}{i}".upper(): " + ".join(d) for i, d in enumerate(dims)}
        a = dict(name=t, projection=proj)
        if t in outs:
            a["output"] = True
        if t in persistent:
            a["persistent"] = True
        acc.append(a)
    e = dict(name=ename, tensor_accesses=acc)
    if einsum_n_instances != 1:
        e["n_instances"] = einsum_n_instances
    d = dict(iteration_space_shape={rv: f"0 <= {rv} < {bounds[rv]}" for rv in rvs},
             bits_per_value={"All": 8}, einsums=[e])
    if n_instances != 1:
        d["n_instances"] = n_instances
    return d


# ---------------------------------------------------------------------------------------------
# architectures
# ---------------------------------------------------------------------------------------------
ARCHS = {
    # name: list of (kind, name) top-down; compute last
    "A2": [("mem", "Main"), ("mem", "GLB"), ("comp", "MAC")],
    "A3": [("mem", "Main"), ("mem", "GLB"), ("mem", "RF"), ("comp", "MAC")],
    "A2T": [("mem", "Main"), ("toll", "Toll"), ("mem", "GLB"), ("comp", "MAC")],
    "A3T": [("mem", "Main"), ("mem", "GLB"), ("toll", "Toll"), ("mem", "RF"), ("comp", "MAC")],
}


def build_arch(kind, opts):
    """opts: dict with optional keys
        skip: {component: bool}            skip_initial_output_write (memories and compute)
        toll_dir: {tensor: 'up'|'down'|'up_and_down'} or str
        latency_expr: {component: str}      total_latency expression"""
    from accelforge.frontend.arch import Arch, Compute, Memory, Toll
    nodes = []
    for k, name in ARCHS[kind]:
        extra = {}
        if name in opts.get("latency_expr", {}):
            extra["total_latency"] = opts["latency_expr"][name]
        if k == "mem":
            nodes.append(Memory(name=name, size=10 ** 12, area=0, leak_power=1,
                                tensors={"keep": "All"} if name == "Main" else {"keep": "Nothing", "may_keep": "All"},
                                skip_initial_output_write=opts.get("skip", {}).get(name, True),
                                actions=[{"name": "read", "energy": 1, "throughput": 1},
                                         {"name": "write", "energy": 1, "throughput": 1}], **extra))
        elif k == "toll":
            d = opts.get("toll_dir", "up_and_down")
            nodes.append(Toll(name=name, direction=d, area=0, leak_power=1,
                              tensors={"keep": "Nothing", "may_keep": "All"},
                              actions=[{"name": "read", "energy": 1, "throughput": 1}], **extra))
        else:
            nodes.append(Compute(name=name, area=0, leak_power=1,
                                 skip_initial_output_write=opts.get("skip", {}).get(name, True),
                                 actions=[{"name": "compute", "energy": 1, "throughput": 1}], **extra))
    return Arch(nodes=nodes)


# ---------------------------------------------------------------------------------------------
# skeletons
# ---------------------------------------------------------------------------------------------
def canonical(sk):
    return tuple(sk)


def loops_of(sk):
    return [i for i, it in enumerate(sk) if it[0] == "L"]


def tile_is_one(sk):
    """index -> True for the innermost loop of each rank variable (tile shape 1)."""
    last = {}
    for i, it in enumerate(sk):
        if it[0] == "L":
            last[it[1]] = i
    return {i: (last[it[1]] == i) for i, it in enumerate(sk) if it[0] == "L"}


def gen_skeletons(arch_kind, wl_kind, n, seed, max_loops_per_rv=2, fixed_first=True, nomain_prob=0.0):
    """Deterministic family: a few canonical shapes followed by random ones.  Every tensor has its
    outermost holder in Main above all loops; lower holders are optional, ordered per tensor by
    the hierarchy, placed in any slot between loops."""
    rng = random.Random(seed * 7919 + sum(map(ord, arch_kind + wl_kind)))
    ename, tensors, outs, rvs = WORKLOADS[wl_kind]
    levels = [nm for k, nm in ARCHS[arch_kind] if k != "comp"]
    lower = levels[1:]
    out, seen = [], set()

    def make(loop_seq, placements, nomain=()):
        # placements: {(tensor, level): slot}; slot s = before loop index s (s == len -> after all)
        # nomain: tensors that are never held in the outermost memory (their first lower holder backs them)
        sk = [("S", levels[0], t) for t in tensors if t not in nomain]
        for s in range(len(loop_seq) + 1):
            here = sorted((levels.index(lv), t) for (t, lv), sl in placements.items() if sl == s)
            for li, t in here:
                sk.append(("S", levels[li], t))
            if s < len(loop_seq):
                sk.append(("L", loop_seq[s]))
        return sk

    def add(sk):
        c = canonical(sk)
        if c not in seen:
            seen.add(c)
            out.append(sk)

    if fixed_first:
        # all lower holders directly under Main, loops in rank-variable order (the tests' shape)
        seq = list(rvs)
        add(make(seq, {(t, lv): 0 for t in tensors for lv in lower}))
        # two loops per rank variable, lower holders between the outer and the inner nest
        seq2 = list(rvs) + list(rvs)
        add(make(seq2, {(t, lv): len(rvs) for t in tensors for lv in lower}))
        # holders at staggered depths
        pl = {}
        for k, t in enumerate(tensors):
            for j, lv in enumerate(lower):
                pl[(t, lv)] = min(len(seq2), k + j + 1)
        add(make(seq2, pl))
        # no lower holders at all
        add(make(seq, {}))
    tries = 0
    while len(out) < n and tries < 200 * n:
        tries += 1
        seq = []
        for rv in rvs:
            seq += [rv] * rng.randint(1, max_loops_per_rv)
        rng.shuffle(seq)
        pl = {}
        nomain = []
        mems = [nm for k, nm in ARCHS[arch_kind] if k == "mem"]
        for t in tensors:
            lo = 0
            for lv in lower:
                if rng.random() < 0.7:
                    s = rng.randint(lo, len(seq))
                    pl[(t, lv)] = s
                    lo = s
            if nomain_prob and rng.random() < nomain_prob and len(mems) > 1:
                # the tensor's outermost holder is the second memory, somewhere below the top
                first = mems[1]
                if (t, first) not in pl:
                    pl[(t, first)] = rng.randint(0, min(pl[(t, lv)] for lv in lower if (t, lv) in pl) if any((t, lv) in pl for lv in lower) else len(seq))
                # no Toll above the first real holder
                for lv in lower:
                    if lv != first and (t, lv) in pl and levels.index(lv) < levels.index(first):
                        del pl[(t, lv)]
                nomain.append(t)
        add(make(seq, pl, nomain))
    return out[:n]


def sk_str(sk):
    return " ".join(f"[{it[2]}@{it[1]}]" if it[0] == "S" else f"for-{it[1]}" for it in sk)


# ---------------------------------------------------------------------------------------------
# spec construction (public constructors) and the symbolic run
# ---------------------------------------------------------------------------------------------
def build_spec(arch_kind, wl_kind, sk, arch_opts=None, bounds=None, tile_shapes=None, wl_opts=None):
    """bounds: {rv: int} (symbolic runs use placeholders, replaced inside the run_model wrapper);
    tile_shapes: {loop index in sk: int} for concrete replays, None -> 'symbol'."""
    from accelforge.frontend.mapping import Compute as MCompute, Mapping, Storage, Temporal, Toll as MToll
    from accelforge.frontend.spec import Spec
    from accelforge.frontend.workload import Workload
    from accelforge.util import LiteralString
    ename, tensors, outs, rvs = WORKLOADS[wl_kind]
    arch_opts = arch_opts or {}
    bounds = bounds or {rv: 4 for rv in rvs}
    one = tile_is_one(sk)
    kinds = {nm: k for k, nm in ARCHS[arch_kind]}
    nodes = []
    for i, it in enumerate(sk):
        if it[0] == "S":
            cls = MToll if kinds[it[1]] == "toll" else Storage
            nd = cls(tensors=[it[2]], component=it[1])
            if it[2] in arch_opts.get("persistent", ()) and not any(x[0] == "S" and x[2] == it[2] for x in sk[:i]):
                nd.persistent = True       # the outermost holder of a persistent tensor
            nodes.append(nd)
        else:
            if one[i]:
                ts = 1
            elif tile_shapes is not None:
                ts = int(tile_shapes[i])
            else:
                ts = LiteralString("symbol")
            nd = Temporal(rank_variable=it[1], tile_shape=1)
            nd.tile_shape = ts
            nodes.append(nd)
    comp_name = [nm for k, nm in ARCHS[arch_kind] if k == "comp"][0]
    nodes.append(MCompute(einsum=ename, component=comp_name))
    spec = Spec(arch=build_arch(arch_kind, arch_opts), workload=Workload(**workload_dict(wl_kind, bounds, **(wl_opts or {}))),
                mapping=Mapping(nodes=nodes))
    from accelforge.frontend.mapper.metrics import Metrics
    spec.model.metrics = Metrics.all_metrics()
    return spec


class _Abort(BaseException):
    pass


@dataclass
class SymRun:
    df: dict            # column -> sympy expr (run_model's second return value merged with usage)
    usage: dict
    actions: dict
    symbols: list
    job_nodes: list     # compact strings of the final mapping (with reservations)
    sym: dict           # name -> sympy symbol created by the injection
    vpa_choice: dict    # (component, action, tensor) -> 'bpa'|'comp'|'action'
    error: str | None = None


P = lambda n: sympy.Symbol(n, positive=True)
PI = lambda n: sympy.Symbol(n, positive=True, integer=True)


def inject_symbols(job, tensors, vpa_mode, scale=None, inst=None):
    """Replace every numeric input of the model by a symbol, on both copies of the evaluated
    architecture.  vpa_mode: {("c", component, tensor): bool} component-level values_per_action entry present,
    {("a", component, action, tensor): bool} action-level entry present.
    scale: optional dict(energy=k, throughput=k) of sympy factors (C19).
    inst: optional (workload n_instances, einsum n_instances) symbols (C19)."""
    from accelforge.frontend import arch as A
    sym = {}

    def S(name, integer=False):
        if name not in sym:
            sym[name] = PI(name) if integer else P(name)
        return sym[name]

    scale = scale or {}
    ke, kt = scale.get("energy", 1), scale.get("throughput", 1)
    objs = list(job.flattened_arch) + list(job.spec_one_einsum.arch.get_nodes_of_type(A.Component))
    for c in objs:
        if not isinstance(c, A.Component):
            continue
        c.total_leak_power = S(f"leak_{c.name}") * ke
        for a in c.actions:
            a.energy = S(f"E_{c.name}_{a.name}") * ke
            a.throughput = S(f"T_{c.name}_{a.name}") * kt
        if isinstance(c, A.Memory):
            c.size = S(f"size_{c.name}")
        if isinstance(c, A.TensorHolder):
            c.bits_per_value = {t: S(f"bpv_{c.name}_{t}") for t in tensors}
            cvpa = {t: S(f"cvpa_{c.name}_{t}") for t in tensors if vpa_mode.get(("c", c.name, t))}
            for a in c.actions:
                a.bits_per_action = S(f"bpa_{c.name}_{a.name}")
                a.values_per_action = {t: S(f"avpa_{c.name}_{a.name}_{t}") for t in tensors
                                       if vpa_mode.get(("a", c.name, a.name, t))}
            c.values_per_action = cvpa
    job.rank_variable_bounds = {k: S("B_" + k, integer=True) for k in job.rank_variable_bounds}
    if inst is not None:
        wl = job.spec_one_einsum.workload
        wl.n_instances = inst[0]
        wl.einsums[job.einsum_name].n_instances = inst[1]
    return sym


def symbolic_run(arch_kind, wl_kind, sk, arch_opts=None, vpa_mode=None, scale=None, inst=None, wl_opts=None, inject=True, bounds=None):
    """Runs the public evaluate_mapping; the wrapper injects symbols, calls the REAL run_model,
    captures its outputs and aborts the (pandas) rest of evaluate_mapping."""
    import accelforge.model.run_model as rm
    from accelforge.util.parallel import set_n_parallel_jobs
    set_n_parallel_jobs(1)
    ename, tensors, outs, rvs = WORKLOADS[wl_kind]
    spec = build_spec(arch_kind, wl_kind, sk, arch_opts, wl_opts=wl_opts, bounds=bounds)
    real = rm.run_model
    cap = {}

    def wrapper(job, add_reservations=True):
        # inject=False: only the tile shapes are symbols (what the mapper's tile-shape exploration sees)
        cap["sym"] = inject_symbols(job, list(tensors), vpa_mode or {}, scale, inst) if inject else {}
        cap["out"] = real(job, add_reservations)
        cap["nodes"] = [n.compact_str() for n in job.mapping.nodes]
        raise _Abort()

    err = None
    with mock.patch.object(rm, "run_model", wrapper):
        try:
            spec.evaluate_mapping()
            err = "evaluate_mapping returned without calling run_model"
        except _Abort:
            pass
        except Exception as e:  # the real code rejected the mapping
            err = f"{type(e).__name__}: {e}"
    if err:
        return SymRun({}, {}, {}, [], [], cap.get("sym", {}), vpa_mode or {}, error=err)
    symbols, df, pmu, usage, t2m, actions = cap["out"]
    return SymRun(dict(df), dict(pmu), dict(actions), list(symbols), cap["nodes"], cap["sym"], vpa_mode or {})


# ---------------------------------------------------------------------------------------------
# trip-count substitution
# ---------------------------------------------------------------------------------------------
def trip_symbols(sk):
    return {i: PI(f"n{k}") for k, i in enumerate(loops_of(sk))}


def substitution(sk, run: SymRun):
    """B_rv -> product of the trip counts of rv's loops; stride<k> -> product of the trip counts of
    the loops of the same rank variable below loop k (perfect factorisation)."""
    n = trip_symbols(sk)
    L = loops_of(sk)
    subs = {}
    rvs = sorted({sk[i][1] for i in L})
    for rv in rvs:
        prod = sympy.Integer(1)
        for i in reversed([i for i in L if sk[i][1] == rv]):
            k = L.index(i)
            subs[f"stride{k}"] = prod
            prod = prod * n[i]
        subs["B_" + rv] = prod
    return subs, n


def canon(expr):
    """sympify and give every symbol canonical assumptions BY NAME (symengine -> sympy conversion
    drops assumptions, so the same name can otherwise denote two different sympy symbols)."""
    e = sympy.sympify(expr)
    if not isinstance(e, sympy.Basic):
        return sympy.sympify(e)
    m = {}
    for s in e.free_symbols:
        integer = s.name.startswith(("B_", "stride", "initial", "n")) and not s.name.startswith("n_")
        m[s] = sympy.Symbol(s.name, positive=True, integer=True) if integer else sympy.Symbol(s.name, positive=True)
    return e.xreplace(m)


def apply_subs(expr, subs):
    e = canon(expr)
    # by name: symengine -> sympy conversion drops the assumptions of the symbols
    e = e.xreplace({s: subs[s.name] for s in e.free_symbols if s.name in subs})
    # after the substitution every ceiling/floor argument is an integer-valued product
    e = e.replace(lambda x: isinstance(x, (sympy.ceiling, sympy.floor)),
                  lambda x: x.func(sympy.cancel(x.args[0])))
    return e


def pull_positive_factor(e, k):
    """Sound rewrite for k > 0: Max(k**p * a, k**p * b, ...) -> k**p * Max(a, b, ...) (same for Min),
    applied bottom-up, so that scaled and unscaled formulas normalise to the same polynomial."""
    if not isinstance(e, sympy.Basic) or not e.has(k):
        return e
    if not e.args:
        return e
    args = [pull_positive_factor(a, k) for a in e.args]
    if isinstance(e, (sympy.Max, sympy.Min)):
        for p in (-1, 1, -2, 2):
            new = [sympy.cancel(a / k ** p) for a in args]
            if not any(n.has(k) for n in new):
                return k ** p * e.func(*new)
    return e.func(*args)
