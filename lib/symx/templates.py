"""Mapper templates through the real template generator (make_pmappings.get_jobs), used by C07/C08."""
from __future__ import annotations

import copy
import os

DATA = os.path.join(os.path.dirname(os.path.dirname(os.path.abspath(__file__))), "data")


def get_jobs(arch="simple", M=12, KN=8, metrics=("ENERGY", "LATENCY"), glb_size=8 * 64, glb_throughput=8, imperfect=False, n_einsums=1,
             max_fused_loops=None, throughputs=None):
    import accelforge as af
    from accelforge.frontend.spec import Spec
    from accelforge.mapper import Metrics
    from accelforge.util.parallel import set_n_parallel_jobs
    import accelforge.mapper.FFM._make_pmappings.make_pmappings as pm
    set_n_parallel_jobs(1)
    arch_p = af.examples.arches.simple if arch == "simple" else os.path.join(DATA, arch + ".yaml")
    spec = Spec.from_yaml(arch_p, af.examples.workloads.basic.matmuls,
                          jinja_parse_data={"N_EINSUMS": n_einsums, "M": M, "KN": KN, "GlobalBufferSize": glb_size, "GlobalBufferThroughput": glb_throughput})
    for node in spec.arch.nodes:
        if throughputs and node.name in throughputs:
            for action in node.actions:
                action.throughput = throughputs[node.name]
    m = Metrics(0)
    for x in metrics:
        m |= Metrics[x]
    spec.mapper.metrics = m
    if imperfect:
        spec.mapper.explore_imperfect_temporal_loops = True
    if max_fused_loops is not None:
        spec.mapper.max_fused_loops = max_fused_loops
    spec = copy.deepcopy(spec)._spec_eval_expressions(eval_arch=False, eval_non_arch=True)
    e2j = pm.get_jobs(spec, spec.mapper.metrics, spec.workload.einsum_names, True, False)
    pm._fill_jobs_with_memories_to_track(e2j, spec, spec.mapper.metrics, False, False)
    return [j for d in e2j.values() for js in d.values() for j in js]
