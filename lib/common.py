"""Shared protocol code for every check: tiers, exit codes, solver bookkeeping, evidence,
known findings, replay files.  See DESIGN.md section 2."""
from __future__ import annotations

import argparse
import json
import os
import shutil
import sys
import tempfile
import time
import traceback
from fractions import Fraction

VERIF = os.path.dirname(os.path.dirname(os.path.abspath(__file__)))
EVIDENCE_DIR = os.path.join(VERIF, "evidence")
REPLAY_DIR = os.path.join(EVIDENCE_DIR, "replay")

EXIT_OK = 0
EXIT_VIOLATION = 1
EXIT_HARNESS = 3  # inconclusive / harness error; never together with a VIOLATION line


class HarnessError(Exception):
    """The check could not decide (unsupported construct, solver unknown, vacuous harness,
    non-reproducing model, failed binding).  Never reported as a violation."""


def tier_from_args(argv=None):
    ap = argparse.ArgumentParser()
    ap.add_argument("--tier", default=os.environ.get("VERIF_TIER", "quick"), choices=["quick", "thorough"])
    ap.add_argument("--replay", default=None)
    ap.add_argument("--jobs", type=int, default=int(os.environ.get("VERIF_JOBS", "16")))
    a = ap.parse_args(argv)
    if a.replay:
        a.replay = os.path.abspath(a.replay)
    return a


def seed():
    try:
        return int(os.environ.get("VERIF_SEED", "0"))
    except ValueError:
        return 0


# ------------------------------------------------------------------------------------------
# known findings
# ------------------------------------------------------------------------------------------
def load_known_findings(pid):
    p = os.path.join(VERIF, "known_findings.json")
    if not os.path.exists(p):
        return []
    with open(p) as f:
        data = json.load(f)
    return [e for e in data.get("findings", []) if e.get("property") == pid and e.get("status") == "known"]


# ------------------------------------------------------------------------------------------
# solver bookkeeping
# ------------------------------------------------------------------------------------------
class Stats:
    """Counts solver queries for the evidence file.  One per check run (merged over shards)."""

    def __init__(self):
        self.obligations = 0      # property obligations (negated assertion must be unsat)
        self.unsat = 0
        self.sat = 0
        self.unknown = 0
        self.queries = 0          # every solver call, incl. vacuity witnesses, mutants
        self.solver_s = 0.0
        self.encode_s = 0.0
        self.vacuity_ok = 0       # reachability twins that came back sat, as they must
        self.mutants_refuted = 0  # seeded wrong references that came back sat, as they must
        self.nontrivial = set()   # hashes of distinct obligations mentioning a symbolic variable
        self.samples = []
        self.instantiations = 0
        self.replays = 0
        self.extra = {}

    def merge(self, d):
        for k in ("obligations", "unsat", "sat", "unknown", "queries", "vacuity_ok", "mutants_refuted",
                  "instantiations", "replays"):
            setattr(self, k, getattr(self, k) + d.get(k, 0))
        self.solver_s += d.get("solver_s", 0.0)
        self.encode_s += d.get("encode_s", 0.0)
        self.nontrivial |= set(d.get("nontrivial", []))
        for s in d.get("samples", []):
            if len(self.samples) < 12:
                self.samples.append(s)
        for k, v in d.get("extra", {}).items():
            if isinstance(v, (int, float)) and isinstance(self.extra.get(k, 0), (int, float)):
                self.extra[k] = self.extra.get(k, 0) + v
            elif isinstance(v, list):
                self.extra.setdefault(k, [])
                for x in v:
                    if x not in self.extra[k]:
                        self.extra[k].append(x)
            else:
                self.extra[k] = v

    def to_dict(self):
        return dict(obligations=self.obligations, unsat=self.unsat, sat=self.sat, unknown=self.unknown,
                    queries=self.queries, solver_s=self.solver_s, encode_s=self.encode_s,
                    vacuity_ok=self.vacuity_ok, mutants_refuted=self.mutants_refuted,
                    nontrivial=list(self.nontrivial), samples=self.samples[:12],
                    instantiations=self.instantiations, replays=self.replays, extra=self.extra)

    def sample(self, s, cap=6):
        if len(self.samples) < cap:
            self.samples.append(s)


def z3_check(solver, stats: Stats, timeout_ms=None):
    """One solver call, counted.  Returns 'sat' | 'unsat' | 'unknown'."""
    import z3
    if timeout_ms is not None:
        solver.set("timeout", int(timeout_ms))
    t0 = time.time()
    r = solver.check()
    stats.solver_s += time.time() - t0
    stats.queries += 1
    return str(r)


def split_check(s, variables, lo, hi, st, timeout_ms=60000, max_cases=256):
    """Finite-domain case split, used when the solver answers `unknown` on a query whose integer
    variables have small domains: the query is re-asked once per assignment of `variables` in
    [lo, hi].  The assignment is SUBSTITUTED into the solver's assertions and the result simplified
    (guards over the fixed variables collapse), then decided in a fresh solver - each sub-query is
    still the solver's verdict over all remaining variables.
    unsat everywhere -> "unsat"; a model anywhere -> "sat"; otherwise "unknown".
    Returns (verdict, fixing constraints or None, model of the sub-query or None)."""
    import itertools
    import z3
    variables = list(variables)
    while (hi - lo + 1) ** len(variables) > max_cases and variables:
        variables = variables[:-1]
    st.extra["case_splits"] = st.extra.get("case_splits", 0) + 1
    asserts = list(s.assertions())
    verdict = "unsat"
    for vals in itertools.product(range(lo, hi + 1), repeat=len(variables)):
        sub = [(v, z3.IntVal(x)) for v, x in zip(variables, vals)]
        s2 = z3.Solver()
        dead = False
        for a in asserts:
            a2 = z3.simplify(z3.substitute(a, *sub))
            if z3.is_false(a2):
                dead = True
                break
            if not z3.is_true(a2):
                s2.add(a2)
        if dead:
            continue
        fix = [v == x for v, x in zip(variables, vals)]
        s2.add(fix)
        r = z3_check(s2, st, timeout_ms)
        if r == "sat":
            return "sat", fix, s2.model()
        if r != "unsat":
            verdict = "unknown"
    return verdict, None, None


def count_obligation(stats: Stats, result: str, formula_repr: str, symbolic: bool = True):
    stats.obligations += 1
    if result == "unsat":
        stats.unsat += 1
    elif result == "sat":
        stats.sat += 1
    else:
        stats.unknown += 1
        stats.extra.setdefault("unknown_obligations", [])
        if len(stats.extra["unknown_obligations"]) < 20:
            stats.extra["unknown_obligations"].append(formula_repr[:300])
    if symbolic:
        stats.nontrivial.add(hash(formula_repr) & 0xFFFFFFFFFFFF)


# ------------------------------------------------------------------------------------------
# evidence / replay
# ------------------------------------------------------------------------------------------
def write_replay(pid, n, payload):
    os.makedirs(REPLAY_DIR, exist_ok=True)
    p = os.path.join(REPLAY_DIR, f"{pid}-{n}.json")
    with open(p, "w") as f:
        json.dump(payload, f, indent=1, default=str)
    return p


def write_evidence(pid, tier, level, stats: Stats, wall_s, violations, functions_encoded, bounds,
                   assumptions, rule, explanation="", extra=None):
    os.makedirs(EVIDENCE_DIR, exist_ok=True)
    cov = {
        "evaluations": stats.queries,
        "distinct_nontrivial": len(stats.nontrivial),
        "rule": rule,
        "samples": stats.samples[:12] or ["(no obligation was generated)"],
        "obligations": stats.obligations,
        "discharged": stats.unsat,
        "unsat": stats.unsat,
        "sat": stats.sat,
        "unknown": stats.unknown,
        "solver_queries": stats.queries,
        "solver_s": round(stats.solver_s, 3),
        "encode_s": round(stats.encode_s, 3),
        "instantiations": stats.instantiations,
        "vacuity_witnesses": stats.vacuity_ok,
        "seeded_mutant_refuted": stats.mutants_refuted,
        "replays": stats.replays,
        "functions_encoded": functions_encoded,
        "bounds": bounds,
        "explanation": explanation,
        "exhaustive": False,
    }
    if level == "translation_validation":
        cov["programs"] = max(stats.instantiations, 0)
        cov["disagreements_checked"] = stats.sat
    cov.update(stats.extra)
    if extra:
        cov.update(extra)
    ev = {
        "property_id": pid,
        "tier": tier,
        "seed": seed(),
        "level": level,
        "coverage": cov,
        "assumptions": assumptions,
        "wall_s": round(wall_s, 2),
        "violations": violations,
    }
    p = os.path.join(EVIDENCE_DIR, f"{pid}.json")
    tmp = p + ".tmp"
    with open(tmp, "w") as f:
        json.dump(ev, f, indent=1, default=str)
    os.replace(tmp, p)
    return p


# ------------------------------------------------------------------------------------------
# scratch cwd (the mapper writes mapping.svg into cwd) and process sharding
# ------------------------------------------------------------------------------------------
class scratch_cwd:
    def __enter__(self):
        self.old = os.getcwd()
        self.d = tempfile.mkdtemp(prefix="verif-scratch-")
        os.chdir(self.d)
        return self.d

    def __exit__(self, *a):
        os.chdir(self.old)
        shutil.rmtree(self.d, ignore_errors=True)


def _shard_entry(args):
    fn, payload = args
    os.environ.setdefault("NUMBA_NUM_THREADS", "1")
    try:
        return ("ok", fn(payload))
    except HarnessError as e:
        return ("harness", f"{e}\n{traceback.format_exc()}")
    except Exception as e:  # noqa
        return ("harness", f"{type(e).__name__}: {e}\n{traceback.format_exc()}")


def run_sharded(fn, payloads, jobs):
    """Run fn(payload) for each payload in a pool of `jobs` processes (spawn-free fork).
    fn must be a module-level function returning a dict (stats dict + 'violations' list +
    'known' list).  Returns list of results in payload order; raises HarnessError when a shard
    failed."""
    import multiprocessing as mp
    payloads = list(payloads)
    if jobs <= 1 or len(payloads) <= 1:
        res = [_shard_entry((fn, p)) for p in payloads]
    else:
        ctx = mp.get_context("fork")
        with ctx.Pool(min(jobs, len(payloads)), maxtasksperchild=None) as pool:
            res = pool.map(_shard_entry, [(fn, p) for p in payloads], chunksize=1)
    out = []
    errs = []
    for st, r in res:
        if st == "ok":
            out.append(r)
        else:
            errs.append(r)
    if errs:
        raise HarnessError("shard(s) failed:\n" + "\n----\n".join(errs[:3]))
    return out


def finish(pid, tier, level, stats: Stats, t0, violations, known, **evkw):
    """Common tail: write evidence, print KNOWN-FINDING / VIOLATION lines, return exit code.
    violations: list of dicts with at least 'what' and 'replay' payload (already replayed)."""
    n = 0
    lines = []
    for v in violations:
        n += 1
        path = write_replay(pid, n, v)
        lines.append(f"VIOLATION property={pid} replay={path}")
    write_evidence(pid, tier, level, stats, time.time() - t0, len(violations), **evkw)
    seen = set()
    for k in known:
        if k not in seen:
            print(f"KNOWN-FINDING: property={pid} {k}")
            seen.add(k)
    for l in lines:
        print(l)
    if stats.unknown:
        print(f"INCONCLUSIVE property={pid}: {stats.unknown} obligation(s) returned unknown", file=sys.stderr)
        return EXIT_VIOLATION if violations else EXIT_HARNESS
    return EXIT_VIOLATION if violations else EXIT_OK


def main_wrapper(pid, run):
    """run(args) -> exit code.  Converts harness errors into exit 3 without a VIOLATION line."""
    args = tier_from_args()
    try:
        with scratch_cwd():
            code = run(args)
    except HarnessError as e:
        print(f"HARNESS-ERROR property={pid}: {e}", file=sys.stderr)
        code = EXIT_HARNESS
    except Exception as e:  # noqa
        traceback.print_exc()
        print(f"HARNESS-ERROR property={pid}: {type(e).__name__}: {e}", file=sys.stderr)
        code = EXIT_HARNESS
    sys.stdout.flush()
    sys.exit(code)
