"""Route C: guarded-merge symbolic interpreter for a numeric Python subset (DESIGN.md section 1).

The source of a function is parsed with `ast` and executed ONCE over z3 terms, CBMC style: every
statement runs under a path guard, assignments become ite(guard, new, old), both arms of a
symbolic `if` are executed, loops are unrolled while the solver finds a further iteration
reachable (unwinding assertion; hard cap 64 -> Unsupported).  Arrays have a concrete shape,
symbolic cells and a dtype: 'real' (mathematical reals), 'fp32' / 'fp64' (IEEE via z3 FP, values
written into an array are rounded to its dtype, mixed operands are promoted to the wider sort,
Python float literals are float64) or 'int'."""
import ast, inspect, textwrap, itertools, time
import z3

class Unsupported(Exception):
    pass

def is_sym(v):
    return isinstance(v, z3.ExprRef)

def zbool(v):
    if is_sym(v):
        return v
    return z3.BoolVal(bool(v))

def ite(c, a, b):
    """merge two values under condition c (c may be python bool)."""
    if not is_sym(c):
        return a if c else b
    c = z3.simplify(c)
    if z3.is_true(c):
        return a
    if z3.is_false(c):
        return b
    if a is b:
        return a
    if not is_sym(a) and not is_sym(b):
        if type(a) == type(b) and a == b:
            return a
    if isinstance(a, SArr) or isinstance(b, SArr):
        if a is b:
            return a
        if isinstance(a, SArr) and isinstance(b, SArr) and a.shape == b.shape:
            return SArr(a.shape, [x if y is None else y if x is None else ite(c, x, y) for x, y in zip(a.cells, b.cells)], dtype=a.dtype)
        raise Unsupported("merging distinct arrays")
    if a is None or b is None:
        # uninitialised on one side: keep the defined one (guarded use is the caller's job)
        return a if b is None else b
    if isinstance(a, bool) or isinstance(b, bool) or (is_sym(a) and z3.is_bool(a)) or (is_sym(b) and z3.is_bool(b)):
        return z3.If(c, zbool(a), zbool(b))
    if is_fp(a) or is_fp(b):
        a2, b2 = fp_promote(a, b)
        return z3.If(c, a2, b2)
    return z3.If(c, lift(a, b), lift(b, a))

FP32 = z3.FPSort(8, 24)
FP64 = z3.FPSort(11, 53)
RNE = z3.RNE()


def is_fp(v):
    return is_sym(v) and z3.is_fp(v)


def fp_to(v, sort):
    if v.sort() == sort:
        return v
    return z3.fpFPToFP(RNE, v, sort)


def fp_promote(a, b):
    """numeric operands -> common FP sort (python numbers are float64; ints become floats)."""
    def tofp(x, like):
        if is_fp(x):
            return x
        if is_sym(x) and z3.is_int(x):
            return z3.fpToFP(RNE, z3.ToReal(x), FP64)
        return z3.FPVal(float(x), FP64)
    a2, b2 = tofp(a, b), tofp(b, a)
    if a2.sort() != b2.sort():
        wide = FP64
        a2, b2 = fp_to(a2, wide), fp_to(b2, wide)
    # a python literal compared with a float32 cell: numpy/numba compare in float64, which is exact
    return a2, b2


def lift(a, like):
    if is_fp(like) and not is_fp(a):
        if is_sym(a) and z3.is_int(a):
            return z3.fpToFP(RNE, z3.ToReal(a), like.sort())
        if not is_sym(a):
            return z3.FPVal(float(a), like.sort())
    if is_sym(a):
        if is_sym(like) and z3.is_real(like) and z3.is_int(a):
            return z3.ToReal(a)
        return a
    if is_sym(like) and z3.is_real(like):
        return z3.RealVal(a)
    if isinstance(a, float):
        return z3.RealVal(a)
    if is_sym(like) and z3.is_int(like):
        return z3.IntVal(a)
    return z3.IntVal(a) if isinstance(a, int) else z3.RealVal(a)

class SArr:
    def __init__(self, shape, cells=None, fill=None, dtype=None):
        self.dtype = dtype          # None | 'real' | 'fp32' | 'fp64' | 'int' | 'bool'
        self.shape = tuple(shape)
        n = 1
        for s in self.shape:
            n *= s
        self.cells = list(cells) if cells is not None else [fill] * n
    def flat(self, idx):
        if not isinstance(idx, tuple):
            idx = (idx,)
        assert len(idx) == len(self.shape), (idx, self.shape)
        return idx
    def get(self, idx, interp):
        idx = self.flat(idx)
        return self._get(idx, 0, 0)
    def _get(self, idx, dim, base):
        stride = 1
        for s in self.shape[dim + 1:]:
            stride *= s
        i = idx[dim]
        last = dim == len(self.shape) - 1
        if not is_sym(i):
            if not (0 <= i < self.shape[dim]):
                raise IndexError((idx, self.shape))
            return self.cells[base + i] if last else self._get(idx, dim + 1, base + i * stride)
        res = None
        for k in reversed(range(self.shape[dim])):
            v = self.cells[base + k] if last else self._get(idx, dim + 1, base + k * stride)
            res = v if res is None else ite(i == k, v, res)
        return res
    def cast(self, val):
        if self.dtype in ("fp32", "fp64"):
            sort = FP32 if self.dtype == "fp32" else FP64
            if is_fp(val):
                return fp_to(val, sort)
            if is_sym(val) and z3.is_int(val):
                return z3.fpToFP(RNE, z3.ToReal(val), sort)
            if not is_sym(val):
                return z3.FPVal(float(val), sort)
        return val

    def set(self, idx, val, guard):
        idx = self.flat(idx)
        self._set(idx, 0, 0, self.cast(val), guard)
    def _set(self, idx, dim, base, val, guard):
        stride = 1
        for s in self.shape[dim + 1:]:
            stride *= s
        i = idx[dim]
        last = dim == len(self.shape) - 1
        ks = [i] if not is_sym(i) else range(self.shape[dim])
        for k in ks:
            g = guard if not is_sym(i) else z3.And(zbool(guard), i == k)
            if last:
                old = self.cells[base + k]
                self.cells[base + k] = val if old is None else ite(g, val, old)
            else:
                self._set(idx, dim + 1, base + k * stride, val, g)

def _abs(x):
    if is_fp(x):
        return z3.fpAbs(x)
    if is_sym(x):
        return z3.If(x >= 0, x, -x)
    return abs(x)


def _minmax(kind):
    def f(*a):
        if len(a) == 1 and isinstance(a[0], (list, tuple)):
            a = tuple(a[0])
        r = a[0]
        for y in a[1:]:
            if is_fp(r) or is_fp(y):
                r2, y2 = fp_promote(r, y)
                c = z3.fpLT(y2, r2) if kind == "min" else z3.fpGT(y2, r2)
                r = z3.If(c, y2, r2)
            elif is_sym(r) or is_sym(y):
                c = (y < r) if kind == "min" else (y > r)
                r = ite(c, y, r)
            else:
                r = min(r, y) if kind == "min" else max(r, y)
        return r
    return f


def _sum(x):
    if isinstance(x, GList):
        return z3.Sum([z3.If(zbool(g), v if is_sym(v) else z3.IntVal(v), 0) for g, v in x.items]) if x.items else 0
    return sum(x)


def _ident_coll(x, *a, **k):
    return x


def _sorted(x, *a, **k):
    if isinstance(x, GList):
        return x.dedup_if_needed().sorted()
    return sorted(x) if not any(is_sym(v) for v in x) else x


class MATH:
    @staticmethod
    def ceil(x):
        return _ceil(x)
    ceil._needs_interp = True

    @staticmethod
    def floor(x):
        if isinstance(x, Quot):
            return x.a / x.b
        return x


_FRESH = itertools.count(1)


def ceil_constraint(c, a, b, bound=None):
    """c == ceil(a / b) for b > 0.  With a symbolic divisor and a known bound on it the product
    c*b is avoided: a disjunction over the divisor's values, each disjunct linear."""
    if is_sym(b) and is_sym(a) and bound:
        return z3.Or([z3.And(b == k, (c - 1) * k < a, a <= c * k) for k in range(1, bound + 1)])
    return z3.And((c - 1) * b < a, a <= c * b)


def _ceil(interp, x):
    """math.ceil on exact integer quotients / square roots (mathematical semantics; the float
    computation is exact for operands < 2**52, stated assumption)."""
    k = next(_FRESH)        # global: sub-interpreters of called functions must not reuse names
    if isinstance(x, Quot):
        c = z3.Int(f"ceil{k}")
        cons = ceil_constraint(c, x.a, x.b, getattr(interp, "int_bound", None))
    elif isinstance(x, Sqrt):
        c = z3.Int(f"csqrt{k}")
        bound = getattr(interp, "int_bound", None)
        if bound:
            # linear definition over the bounded domain: c = r  <=>  (r-1)^2 < a <= r^2
            r, alts = 0, []
            while r * r < bound + 1 or r == 0:
                alts.append(z3.And(c == r, x.a > (r - 1) * (r - 1) if r > 0 else x.a <= 0, x.a <= r * r))
                r += 1
            alts.append(z3.And(c == r, x.a > (r - 1) * (r - 1), x.a <= r * r))
            cons = z3.Or(alts)
        else:
            cons = z3.And(c >= 0, (c - 1) * (c - 1) < x.a, x.a <= c * c)
    else:
        return x
    interp.solver.add(cons)
    interp.side.append(cons)
    return c


_ceil._needs_interp = True
MATH.ceil = staticmethod(_ceil)

def _round(interp, x):
    """Python round() of an exact quotient a/b (b > 0): nearest integer, ties to even."""
    if not isinstance(x, Quot):
        return x
    k = next(_FRESH)
    r = z3.Int(f"round{k}")
    a, b = x.a, x.b
    cons = z3.And(2 * a - b <= 2 * r * b, 2 * r * b <= 2 * a + b,
                  z3.Implies(z3.Or(2 * r * b == 2 * a - b, 2 * r * b == 2 * a + b), r % 2 == 0))
    interp.solver.add(cons)
    interp.side.append(cons)
    return r


_round._needs_interp = True

BUILTINS = {"sum": _sum, "sorted": lambda *a, **k: _sorted(*a, **k), "oset": lambda *a, **k: _dedup(*a, **k), "set": lambda *a, **k: _dedup(*a, **k), "tuple": _ident_coll, "list": _ident_coll,
            "any": lambda x: _any(x), "all": lambda x: _all(x), "comb": lambda *a: _comb(*a), "prod": lambda *a: _prod(*a),
            "ceil": _ceil, "abs": _abs, "min": _minmax("min"), "max": _minmax("max"), "len": lambda x: x.shape[0] if isinstance(x, SArr) else len(x),
            "round": _round, "int": lambda x: x, "float": lambda x: x, "bool": lambda x: x, "True": True, "False": False}


class GList:
    """A guarded collection: list of (guard, value).  Element k is present iff guard k holds."""

    def __init__(self, items=None):
        self.items = list(items or [])

    def append(self, guard, v):
        self.items.append((guard, v))

    add = append

    def member(self, x):
        alts = [z3.And(zbool(g), (v == x) if (is_sym(v) or is_sym(x)) else z3.BoolVal(v == x)) for g, v in self.items]
        return z3.Or(alts) if alts else z3.BoolVal(False)


    def scaled(self, k):
        return GList([(g, v * k) for g, v in self.items])

    def sorted(self):
        """Ascending order of the present elements (which must be pairwise distinct: call dedup()
        first).  Position p holds the present element with exactly p smaller present elements."""
        m = len(self.items)
        if m <= 1 or not any(is_sym(g) or is_sym(v) for g, v in self.items):
            if not any(is_sym(g) or is_sym(v) for g, v in self.items):
                return GList(sorted([(g, v) for g, v in self.items if g is True or (not is_sym(g) and g)], key=lambda t: t[1]))
            return GList(self.items)
        ranks = []
        for k, (g, v) in enumerate(self.items):
            ranks.append(z3.Sum([z3.If(z3.And(zbool(g2), zbool(v2 < v)), 1, 0) for j, (g2, v2) in enumerate(self.items) if j != k]))
        npresent = z3.Sum([z3.If(zbool(g), 1, 0) for g, _ in self.items])
        out = []
        for p in range(m):
            val = z3.IntVal(0)
            for k, (g, v) in enumerate(self.items):
                val = z3.If(z3.And(zbool(g), ranks[k] == p), v if is_sym(v) else z3.IntVal(v), val)
            out.append((z3.simplify(npresent > p), val))
        return GList(out)

    def count(self, x):
        return z3.Sum([z3.If(z3.And(zbool(g), (v == x) if (is_sym(v) or is_sym(x)) else z3.BoolVal(v == x)), 1, 0) for g, v in self.items]) if self.items else 0

    def dedup_if_needed(self):
        return self if getattr(self, "_distinct", False) else self.dedup()

    def dedup(self):
        """set()/oset() semantics: element k survives iff no earlier present element equals it."""
        out = []
        for k, (g, v) in enumerate(self.items):
            earlier = [z3.And(zbool(g2), (v2 == v) if (is_sym(v) or is_sym(v2)) else z3.BoolVal(v2 == v)) for g2, v2 in self.items[:k]]
            out.append((z3.simplify(z3.And(zbool(g), z3.Not(z3.Or(earlier)))) if earlier else g, v))
        r = GList(out)
        r._distinct = True
        return r


def _dedup(x=None, *a, **k):
    if x is None:
        return GList()
    if isinstance(x, GList):
        return x.dedup()
    return x


def _any(x):
    if isinstance(x, GList):
        return z3.Or([z3.And(zbool(g), zbool(v)) for g, v in x.items]) if x.items else False
    x = list(x)
    if any(is_sym(v) for v in x):
        return z3.Or([zbool(v) for v in x])
    return any(x)


def _all(x):
    if isinstance(x, GList):
        return z3.And([z3.Implies(zbool(g), zbool(v)) for g, v in x.items]) if x.items else True
    x = list(x)
    if any(is_sym(v) for v in x):
        return z3.And([zbool(v) for v in x])
    return all(x)


def _prod(x, start=1):
    if isinstance(x, GList):
        r = start
        for g, v in x.items:
            r = r * (z3.If(zbool(g), v if is_sym(v) else z3.IntVal(v), 1) if (is_sym(g) or is_sym(v)) else (v if g else 1))
        return r
    r = start
    for v in x:
        r = r * v
    return r


POW2_MAX = 40


def _pow2(b):
    """2**b for a symbolic non-negative exponent: ite table over 0..POW2_MAX (exponents beyond
    are out of the encoded range: the last entry is returned, callers bound their integers)."""
    if not is_sym(b):
        return 2 ** b
    r = z3.IntVal(2 ** POW2_MAX)
    for k in range(POW2_MAX - 1, -1, -1):
        r = z3.If(b <= k, z3.IntVal(2 ** k), r)
    return r


def _bit_length(v):
    def f():
        a = z3.If(v >= 0, v, -v)
        return z3.Sum([z3.If(a >= 2 ** k, 1, 0) for k in range(POW2_MAX)])
    return f


def _comb(a, b):
    import math as _m
    if not is_sym(a) and not is_sym(b):
        return _m.comb(a, b)
    if is_sym(b):
        raise Unsupported("comb with symbolic k")
    # ite table over the bounded first argument (linear for the solver); beyond it the polynomial
    top = POW2_MAX + b + 2
    poly = z3.IntVal(1)
    for j in range(b):
        poly = poly * (a - j)
    r = z3.If(a < 0, 0, poly / _m.factorial(b))
    for x in range(top, -1, -1):
        r = z3.If(a == x, _m.comb(x, b), r)
    return r




MATH.prod = staticmethod(_prod)
MATH.comb = staticmethod(_comb)


class Quot:
    """a / b on integers, kept exact (consumed by math.ceil / round / int)."""

    def __init__(self, a, b):
        self.a, self.b = a, b


class Sqrt:
    def __init__(self, a):
        self.a = a


class ChainEnv(dict):
    """Local scope of a nested function: reads fall through to the (live) defining scope."""

    def __init__(self, parent):
        super().__init__()
        self.parent = parent

    def __contains__(self, k):
        return dict.__contains__(self, k) or k in self.parent

    def __getitem__(self, k):
        return dict.__getitem__(self, k) if dict.__contains__(self, k) else self.parent[k]

    def get(self, k, d=None):
        return self[k] if k in self else d


class Closure:
    def __init__(self, node, env):
        self.node, self.env = node, env


class Interp:
    def __init__(self, fn_src, globs, solver=None):
        self.tree = ast.parse(textwrap.dedent(fn_src)).body[0]
        self.globs = globs
        self.solver = solver or z3.Solver()
        self.n_feas = 0
        self.fresh = 0
        self.side = []
        self._reach = {}
        self._keep = []
        self.unwind_cap = 64
        self.functions = {}          # name -> python function whose source is interpreted on call

    # ---------- feasibility ----------
    def feasible(self, cond):
        cond = z3.simplify(zbool(cond))
        if z3.is_true(cond):
            return True
        if z3.is_false(cond):
            return False
        self.n_feas += 1
        self.solver.push()
        self.solver.add(cond)
        self.solver.set("timeout", 60000)     # `unknown` counts as feasible: unrolling further is sound,
        r = self.solver.check()               # termination is guaranteed by the unwinding cap (-> exit 3)
        self.solver.pop()
        if str(r) == "unknown":
            self.n_feas_unknown = getattr(self, "n_feas_unknown", 0) + 1
        return str(r) != "unsat"

    # ---------- expressions ----------
    def ev(self, node, env):
        m = getattr(self, "ev_" + type(node).__name__, None)
        if m is None:
            raise Unsupported(ast.dump(node)[:80])
        return m(node, env)
    def ev_Constant(self, n, env):
        return n.value
    def ev_Name(self, n, env):
        if n.id in env:
            return env[n.id]
        if n.id in self.globs:
            return self.globs[n.id]
        if n.id in BUILTINS:
            return BUILTINS[n.id]
        mod = getattr(self, "module_globals", None) or {}
        if n.id in mod and isinstance(mod[n.id], (int, float, bool)):
            return mod[n.id]          # numeric module-level constants are read from the real module
        raise Unsupported(f"name {n.id}")
    def ev_Attribute(self, n, env):
        v = self.ev(n.value, env)
        if isinstance(v, SArr) and n.attr == "shape":
            return v.shape
        if isinstance(v, SArr) and n.attr == "dtype":
            return v.dtype or "real"
        if is_sym(v) and n.attr == "bit_length" and z3.is_int(v):
            return _bit_length(v)
        if isinstance(v, int) and not isinstance(v, bool) and n.attr == "bit_length":
            return v.bit_length
        return getattr(v, n.attr)
    def ev_Tuple(self, n, env):
        return tuple(self.ev(e, env) for e in n.elts)
    def ev_BinOp(self, n, env):
        a, b = self.ev(n.left, env), self.ev(n.right, env)
        op = type(n.op).__name__
        if is_fp(a) or is_fp(b):
            a2, b2 = fp_promote(a, b)
            if op == "Add": return z3.fpAdd(RNE, a2, b2)
            if op == "Sub": return z3.fpSub(RNE, a2, b2)
            if op == "Mult": return z3.fpMul(RNE, a2, b2)
            raise Unsupported("fp " + op)
        if isinstance(a, GList) and op == "Mult": return a.scaled(b)
        if isinstance(b, GList) and op == "Mult": return b.scaled(a)
        if op == "Add": return a + b
        if op == "Sub": return a - b
        if op == "Mult": return a * b
        if op == "Pow" and not isinstance(b, (GList, Quot, Sqrt)) and not is_sym(b) and b == 0.5:
            return Sqrt(a)
        if op == "Div":
            if not is_sym(a) and not is_sym(b):
                return a / b
            return Quot(a, b)
        if op == "FloorDiv":
            if not is_sym(a) and not is_sym(b):
                return a // b
            return a / b            # z3 Int division; operands are positive here
        if op == "Mod":
            return a % b
        if op == "RShift":
            return a / _pow2(b) if (is_sym(a) or is_sym(b)) else a >> b     # z3 Int '/' is floor div for non-negatives
        if op == "LShift":
            return a * _pow2(b)
        if op == "Pow" and not is_sym(a) and a == 2 and is_sym(b):
            return _pow2(b)
        if op == "Pow" and isinstance(b, int) and 0 <= b <= 6:
            r = 1
            for _ in range(b):
                r = r * a
            return r
        raise Unsupported(op)
    def ev_UnaryOp(self, n, env):
        v = self.ev(n.operand, env)
        if isinstance(n.op, ast.Not):
            return z3.Not(v) if is_sym(v) else (not v)
        if isinstance(n.op, ast.USub):
            return -v
        raise Unsupported("unary")
    def ev_BoolOp(self, n, env):
        vals = [self.ev(v, env) for v in n.values]   # operands here are side-effect free
        if any(is_sym(v) for v in vals):
            return (z3.And if isinstance(n.op, ast.And) else z3.Or)([zbool(v) for v in vals])
        return all(vals) if isinstance(n.op, ast.And) else any(vals)
    def ev_Compare(self, n, env):
        assert len(n.ops) == 1
        a, b = self.ev(n.left, env), self.ev(n.comparators[0], env)
        op = type(n.ops[0]).__name__
        if op in ("In", "NotIn"):
            if isinstance(b, GList):
                r = b.member(a)
                return z3.Not(r) if op == "NotIn" else r
            if is_sym(a):
                r = z3.Or([a == v for v in b]) if len(b) else z3.BoolVal(False)
                return z3.Not(r) if op == "NotIn" else r
            return (a in b) if op == "In" else (a not in b)
        if is_fp(a) or is_fp(b):
            a2, b2 = fp_promote(a, b)
            return {"Lt": lambda: z3.fpLT(a2, b2), "LtE": lambda: z3.fpLEQ(a2, b2), "Gt": lambda: z3.fpGT(a2, b2),
                    "GtE": lambda: z3.fpGEQ(a2, b2), "Eq": lambda: z3.fpEQ(a2, b2), "NotEq": lambda: z3.Not(z3.fpEQ(a2, b2))}[op]()
        if is_sym(a) or is_sym(b):
            if is_sym(a) and not is_sym(b): b = lift(b, a)
            if is_sym(b) and not is_sym(a): a = lift(a, b)
            if z3.is_int(a) and z3.is_real(b): a = z3.ToReal(a)
            if z3.is_int(b) and z3.is_real(a): b = z3.ToReal(b)
        return {"Lt": lambda: a < b, "LtE": lambda: a <= b, "Gt": lambda: a > b, "GtE": lambda: a >= b,
                "Eq": lambda: a == b, "NotEq": lambda: a != b}[op]()
    def ev_Subscript(self, n, env):
        v = self.ev(n.value, env)
        if isinstance(n.slice, ast.Slice) and isinstance(v, (tuple, list)):
            lo = self.ev(n.slice.lower, env) if n.slice.lower else None
            hi = self.ev(n.slice.upper, env) if n.slice.upper else None
            return v[lo:hi]
        if isinstance(n.slice, ast.Slice):
            lo = self.ev(n.slice.lower, env) if n.slice.lower else 0
            hi = self.ev(n.slice.upper, env) if n.slice.upper else len(v.cells)
            return SArr((hi - lo,), v.cells[lo:hi], dtype=v.dtype)
        if isinstance(n.slice, ast.Tuple) and isinstance(n.slice.elts[0], ast.Slice):
            sl, col = n.slice.elts
            hi = self.ev(sl.upper, env)
            c = self.ev(col, env)
            return SArr((hi,), [v.get((r, c), self) for r in range(hi)], dtype=v.dtype)
        idx = self.ev(n.slice, env)
        if isinstance(v, SArr):
            return v.get(idx, self)
        return v[idx]
    def _iterate(self, gen, env, guard=True):
        """yields (guard, env') for one `for target in iter if conds` clause (range or GList)."""
        it = self.ev(gen.iter, env)
        out = []
        if isinstance(it, GList):
            seq = [(g, v) for g, v in it.items]
        elif isinstance(it, tuple) and it and it[0] == "range":
            lo, hi = it[1], it[2]
            seq = []
            i = lo if not is_sym(lo) else 0
            while True:
                alive = z3.And(zbool(guard), zbool(i < hi))
                if not self.feasible(alive):
                    break
                g = z3.And(zbool(i < hi), zbool(i >= lo)) if is_sym(lo) else zbool(i < hi)
                seq.append((g, i))
                i += 1
                if i > self.unwind_cap:
                    raise Unsupported("unwinding bound exceeded in comprehension")
        elif isinstance(it, (list, tuple)):
            seq = [(True, v) for v in it]
        else:
            raise Unsupported("comprehension over " + type(it).__name__)
        for g, v in seq:
            e2 = dict(env)
            e2[gen.target.id] = v
            gg = z3.And(zbool(guard), zbool(g))
            for c in gen.ifs:
                gg = z3.And(gg, zbool(self.ev(c, e2)))
            gg = z3.simplify(gg)
            if z3.is_false(gg):
                continue
            out.append((gg, e2))
        return out

    def ev_GeneratorExp(self, n, env):
        if len(n.generators) != 1:
            raise Unsupported("nested comprehension")
        return GList([(g, self.ev(n.elt, e2)) for g, e2 in self._iterate(n.generators[0], env)])

    ev_ListComp = ev_GeneratorExp

    def ev_Call(self, n, env):
        if isinstance(n.func, ast.Name) and n.func.id in self.functions:
            args = [self.ev(a, env) for a in n.args]
            return self.call_function(self.functions[n.func.id], args)
        if isinstance(n.func, ast.Name) and n.func.id not in env and n.func.id not in self.globs and n.func.id not in BUILTINS:
            # a helper defined in the module under analysis: interpret its current source too
            import types as _types
            cand = (getattr(self, "module_globals", None) or {}).get(n.func.id)
            tgt = getattr(cand, "__wrapped__", getattr(cand, "py_func", cand))
            if isinstance(tgt, _types.FunctionType) and (tgt.__module__ or "").startswith("accelforge"):
                args = [self.ev(a, env) for a in n.args]
                return self.call_function(cand, args)
        f = self.ev(n.func, env)
        args = [self.ev(a, env) for a in n.args]
        kw = {k.arg: self.ev(k.value, env) for k in n.keywords}
        if isinstance(f, Closure):
            return self.call_closure(f, args, kw)
        return f(self, *args, **kw) if getattr(f, "_needs_interp", False) else f(*args, **kw)

    def ev_IfExp(self, n, env):
        c = self.ev(n.test, env)
        if not is_sym(c):
            return self.ev(n.body if c else n.orelse, env)
        return ite(c, self.ev(n.body, env), self.ev(n.orelse, env))

    def ev_List(self, n, env):
        if n.elts:
            return [self.ev(e, env) for e in n.elts]
        return GList()

    def call_function(self, pyfunc, args):
        import inspect as _inspect
        target = getattr(pyfunc, "__wrapped__", getattr(pyfunc, "py_func", pyfunc))
        src = textwrap.dedent(_inspect.getsource(target))
        src = src[src.index("def " + target.__name__):]
        sub = Interp(src, self.globs, self.solver)
        sub.functions = self.functions
        sub.module_globals = getattr(self, "module_globals", None)
        sub.unwind_cap = self.unwind_cap
        sub.int_bound = getattr(self, "int_bound", None)
        names = [a.arg for a in sub.tree.args.args]
        sub.run(dict(zip(names, args)))
        self.n_feas += sub.n_feas
        self.side += sub.side
        return sub.retval

    def bind(self, fnode, args, kw, env):
        names = [a.arg for a in fnode.args.args]
        for nm, v in zip(names, args):
            env[nm] = v
        for nm, v in (kw or {}).items():
            env[nm] = v
        defaults = fnode.args.defaults
        for nm, d in zip(names[len(names) - len(defaults):], defaults):
            if not dict.__contains__(env, nm):
                env[nm] = self.ev(d, env)
        return env

    def call_closure(self, c, args, kw=None):
        """A nested function called under the current statement guard; its body runs on a local
        scope chained to the live defining scope (Python closure semantics, no `nonlocal`)."""
        g = getattr(self, "cur_guard", True)
        local = self.bind(c.node, args, kw, ChainEnv(c.env))
        fr = {"ret": False}
        self.block(c.node.body, local, g, fr, None)
        self.cur_guard = g
        return fr.get("val")

    # ---------- statements ----------
    def run(self, args):
        env = self.bind(self.tree, [], dict(args), {})
        fr = {"ret": False}
        self.block(self.tree.body, env, True, fr, None)
        self.retval = fr.get("val")
        return env

    def block(self, stmts, env, guard, fr, loop):
        for s in stmts:
            g = guard
            if loop is not None:
                g = z3.And(zbool(g), z3.Not(zbool(loop["brk"])), z3.Not(zbool(loop["cont"])))
            g = z3.And(zbool(g), z3.Not(zbool(fr["ret"])))
            g = z3.simplify(g)
            if z3.is_false(g):
                return
            if z3.is_true(g):
                g = True
            else:
                # semantic reachability of the statement (cached per guard term): code after a
                # `continue`/`return` taken on every feasible path is dead and must not be executed
                key = g.get_id()
                if key not in self._reach:
                    self._reach[key] = self.feasible(g)
                    self._keep.append(g)
                if not self._reach[key]:
                    return
            self.stmt(s, env, g, fr, loop)

    def assign(self, target, val, env, guard):
        if isinstance(target, ast.Name):
            old = env.get(target.id)
            env[target.id] = val if (old is None or guard is True) else ite(guard, val, old)
        elif isinstance(target, ast.Subscript):
            arr = self.ev(target.value, env)
            idx = self.ev(target.slice, env)
            arr.set(idx, val, guard)
        elif isinstance(target, ast.Tuple):
            for tg, v in zip(target.elts, val):
                self.assign(tg, v, env, guard)
        else:
            raise Unsupported("assign target")

    def stmt(self, s, env, guard, fr, loop):
        t = type(s).__name__
        self.cur_guard = guard
        if t == "FunctionDef":
            env[s.name] = Closure(s, env)
            return
        if t == "Expr":
            v = s.value
            if isinstance(v, ast.Call) and isinstance(v.func, ast.Attribute) and v.func.attr in ("append", "add"):
                obj = self.ev(v.func.value, env)
                if isinstance(obj, GList):
                    obj.append(guard, self.ev(v.args[0], env))
                    return
            if isinstance(v, ast.Constant):
                return
            if isinstance(v, ast.Call):
                self.ev(v, env)          # evaluated for its (guarded) effects: nested-function calls
                return
            raise Unsupported("expression statement")
        if t == "Assign":
            val = self.ev(s.value, env)
            for tg in s.targets:
                self.assign(tg, val, env, guard)
            return
        if t == "AugAssign":
            cur = self.ev(s.target, env)
            val = self.ev(ast.BinOp(left=ast.Constant(0), op=s.op, right=ast.Constant(0)), env) if False else None
            rhs = self.ev(s.value, env)
            op = type(s.op).__name__
            if is_fp(cur) or is_fp(rhs):
                c2, r2 = fp_promote(cur, rhs)
                new = z3.fpAdd(RNE, c2, r2) if op == "Add" else z3.fpSub(RNE, c2, r2) if op == "Sub" else None
            else:
                new = (cur + rhs if op == "Add" else cur - rhs if op == "Sub" else cur * rhs if op == "Mult" else
                       cur % rhs if op == "Mod" else
                       ((cur // rhs) if not (is_sym(cur) or is_sym(rhs)) else cur / rhs) if op == "FloorDiv" else None)
            if new is None:
                raise Unsupported("augassign " + op)
            self.assign(s.target, new, env, guard)
            return
        if t == "If":
            c = self.ev(s.test, env)
            if not is_sym(c):
                self.block(s.body if c else s.orelse, env, guard, fr, loop)
                return
            gt = z3.And(zbool(guard), c)
            gf = z3.And(zbool(guard), z3.Not(c))
            if self.feasible(gt):
                self.block(s.body, env, gt, fr, loop)
            if s.orelse and self.feasible(gf):
                self.block(s.orelse, env, gf, fr, loop)
            return
        if t == "For":
            it = self.ev(s.iter, env)
            if isinstance(it, GList) or (isinstance(it, (list, tuple)) and not (it and it[0] == "range")):
                seq = it.items if isinstance(it, GList) else [(True, v) for v in it]
                lp = {"brk": False, "cont": False}
                for g0, v in seq:
                    g = z3.simplify(z3.And(zbool(guard), zbool(g0), z3.Not(zbool(lp["brk"])), z3.Not(zbool(fr["ret"]))))
                    if not self.feasible(g):
                        continue
                    lp["cont"] = False
                    self.assign(s.target, v, env, True)
                    self.block(s.body, env, g, fr, lp)
                return
            lo, hi = it[1], it[2]
            lp = {"brk": False, "cont": False}
            i = lo if not is_sym(lo) else 0
            while True:
                alive = z3.And(zbool(guard), zbool(i < hi), z3.Not(zbool(lp["brk"])), z3.Not(zbool(fr["ret"])))
                if not self.feasible(alive):
                    break
                g = z3.And(alive, zbool(i >= lo)) if is_sym(lo) else alive
                if self.feasible(g):
                    lp["cont"] = False
                    self.assign(s.target, i, env, True)   # loop var only read under g
                    self.block(s.body, env, z3.simplify(g), fr, lp)
                i += 1
                if i > self.unwind_cap:
                    raise Unsupported("unwinding bound exceeded")
            return
        if t == "While":
            lp = {"brk": False, "cont": False}
            k = 0
            while True:
                c = self.ev(s.test, env)
                g = z3.And(zbool(guard), zbool(c), z3.Not(zbool(lp["brk"])), z3.Not(zbool(fr["ret"])))
                if not self.feasible(g):
                    break
                lp["cont"] = False
                self.block(s.body, env, z3.simplify(g), fr, lp)
                k += 1
                if k > max(64, 2 * self.unwind_cap):
                    raise Unsupported("unwinding bound exceeded")
            return
        if t == "Break":
            loop["brk"] = z3.simplify(z3.Or(zbool(loop["brk"]), zbool(guard)))
            return
        if t == "Continue":
            loop["cont"] = z3.simplify(z3.Or(zbool(loop["cont"]), zbool(guard)))
            return
        if t == "Return":
            if s.value is not None:
                val = self.ev(s.value, env)
                fr["val"] = val if "val" not in fr else ite(guard, val, fr["val"])
            fr["ret"] = z3.simplify(z3.Or(zbool(fr["ret"]), zbool(guard)))
            return
        raise Unsupported(t)

# ---------------- numpy / numba shims ----------------
def _range(*a):
    if len(a) == 1:
        return ("range", 0, a[0])
    return ("range", a[0], a[1])

class NP:
    int64 = "int64"
    array = staticmethod(lambda x, *a, **k: x)
    @staticmethod
    def empty(shape, dtype=None):
        dt = dtype if dtype in ("real", "fp32", "fp64") else ("int" if dtype == "int64" else None)
        return SArr(shape if isinstance(shape, tuple) else (shape,), dtype=dt)
    def argsort(interp, a, kind=None):
        n = a.shape[0]
        interp.fresh += 1
        perm = [z3.Int(f"perm{interp.fresh}_{k}") for k in range(n)]
        cons = [z3.And(p >= 0, p < n) for p in perm] + [z3.Distinct(perm)]
        vals = [a.get(p, interp) for p in perm]
        for k in range(n - 1):
            if is_fp(vals[k]):
                # stable merge sort on non-NaN floats (-0.0 == +0.0 under IEEE comparison)
                cons.append(z3.Or(z3.fpLT(vals[k], vals[k + 1]), z3.And(z3.fpEQ(vals[k], vals[k + 1]), perm[k] < perm[k + 1])))
            else:
                cons.append(z3.Or(vals[k] < vals[k + 1], z3.And(vals[k] == vals[k + 1], perm[k] < perm[k + 1])))
        interp.solver.add(cons)
        interp.side += cons
        return SArr((n,), perm, dtype="int")
    argsort._needs_interp = True
    argsort = staticmethod(argsort)

def _float64(x):
    if is_fp(x):
        return fp_to(x, FP64)
    if not is_sym(x) and MODE["float"] == "fp":
        return z3.FPVal(float(x), FP64)
    return x


MODE = {"float": "real"}        # 'real' | 'fp': how Python float literals cast by numba.float64 are read


class NUMBA:
    int64 = staticmethod(lambda x: x)
    float64 = staticmethod(_float64)
