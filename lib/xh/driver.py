"""Runs CrossHair (0.0.110) on the contract functions of a harness file, one process per
condition, and classifies the outcome.  "Confirmed over all paths" is the only positive answer;
"Not confirmed" / "Unable to meet precondition" / a timeout are inconclusive."""
from __future__ import annotations

import ast
import os
import re
import subprocess
import sys
import time
from concurrent.futures import ThreadPoolExecutor


def function_lines(path):
    tree = ast.parse(open(path).read())
    out = {}
    for n in tree.body:
        if isinstance(n, ast.FunctionDef):
            # a line inside the def: the first line of the body's docstring
            out[n.name] = n.body[0].lineno if n.body else n.lineno
    return out


def run_one(path, func, line, timeout_s, env, extra_args=()):
    cmd = [sys.executable, "-m", "crosshair", "check", "--report_all", f"--per_condition_timeout={timeout_s}",
           *extra_args, f"{path}:{line}"]
    t0 = time.time()
    try:
        p = subprocess.run(cmd, capture_output=True, text=True, env=env, timeout=timeout_s * 3 + 120)
        out = p.stdout + p.stderr
    except subprocess.TimeoutExpired as e:
        out = "TIMEOUT " + str(e)
    dt = time.time() - t0
    status, detail = "inconclusive", out.strip()[-800:]
    if "Confirmed over all paths" in out and "error:" not in out:
        status = "confirmed"
    else:
        m = re.search(r"error: (.*)", out)
        if m:
            msg = m.group(1)
            if msg.startswith("false when calling") or " when calling " in msg:
                status = "refuted"
                detail = msg
            else:
                status = "inconclusive"
                detail = msg
        elif "Not confirmed" in out or "Unable to meet precondition" in out:
            status = "inconclusive"
    return dict(function=func, status=status, detail=detail, seconds=round(dt, 1))


def parse_call(detail, func):
    """'false when calling f(a, b, c) (which returns ...)' -> tuple of python values."""
    i = detail.find(func + "(")
    if i < 0:
        return None
    j = i + len(func)
    depth = 0
    for k in range(j, len(detail)):
        if detail[k] == "(":
            depth += 1
        elif detail[k] == ")":
            depth -= 1
            if depth == 0:
                try:
                    return ast.literal_eval("(" + detail[j + 1:k] + ",)") if detail[j + 1:k].strip() else ()
                except Exception:
                    return None
    return None


def run_harness(path, funcs, timeout_s, env_extra=None, jobs=16, extra_args=()):
    """funcs: list of function names.  Returns list of result dicts in the same order."""
    lines = function_lines(path)
    env = dict(os.environ)
    env.update(env_extra or {})
    with ThreadPoolExecutor(max_workers=jobs) as ex:
        futs = [ex.submit(run_one, path, f, lines[f], timeout_s, env, extra_args) for f in funcs]
        return [f.result() for f in futs]
