"""CrossHair harness for C21: the real accelforge.util._basetypes._get_parsable_field_order with the
`re` module of _basetypes replaced by a stub that answers 'does the expression of field j mention
field i' from a SYMBOLIC Boolean matrix, so the solver ranges over every dependency graph on N
nodes (cyclic or not); the key order is one shard per permutation (env C21_PERM).

Stub contract (re.findall(r"\\b" + re.escape(name) + r"\\b", expression)): non-empty iff the
expression mentions the name as a whole word.  The contract is validated by the replays, which
build real expression strings and run them through Spec._spec_eval_expressions (real regex)."""
import os
from typing import Any, List

import accelforge.util._basetypes as B
from accelforge.util._basetypes import EvalsTo, EvaluationError

N = int(os.environ.get("C21_N", "3"))
ROW0 = os.environ.get("C21_ROW0", "")          # optional shard: fixed first row, e.g. "010"
PERM = [int(c) for c in os.environ.get("C21_PERM", "")] or list(range(N))    # key order of this shard
NAMES = [f"f{i}" for i in range(N)]


class _FakeRe:
    dep: List[List[bool]] = []

    @staticmethod
    def escape(s):
        return s

    @staticmethod
    def _mentions(pat, text):
        # pat = "\\b" + name + "\\b" (or a variant of it) ; text = "expr<j>"
        i = int("".join(ch for ch in str(pat) if ch.isdigit()))
        j = int(text[4:])
        return _FakeRe.dep[j][i]

    @staticmethod
    def findall(pat, text, *a):
        return ["x"] if _FakeRe._mentions(pat, text) else []

    @staticmethod
    def search(pat, text, *a):
        return "x" if _FakeRe._mentions(pat, text) else None

    @staticmethod
    def finditer(pat, text, *a):
        return iter(["x"] if _FakeRe._mentions(pat, text) else [])


def _has_cycle(dep, n):
    removed = [False] * n
    for _ in range(n):
        for j in range(n):
            if not removed[j] and all(removed[i] or not dep[j][i] or i == j for i in range(n)):
                removed[j] = True
    return not all(removed)


def _shape_ok(dep: List[List[bool]]) -> bool:
    if len(dep) != N or not all(len(r) == N for r in dep):
        return False
    if ROW0:
        return all(dep[0][i] == (ROW0[i] == "1") for i in range(N))
    return True


def _run(dep, perm):
    _FakeRe.dep = dep
    old = B.re
    B.re = _FakeRe
    try:
        triples = [(NAMES[j], f"expr{j}", EvalsTo[Any]) for j in perm]
        try:
            return B._get_parsable_field_order((), triples), False
        except EvaluationError:
            return None, True
    finally:
        B.re = old


def order_respects_dependencies(dep: List[List[bool]]) -> bool:
    """
    pre: _shape_ok(dep)
    post: _
    """
    order, raised = _run(dep, PERM)
    cyc = _has_cycle(dep, N)
    if raised:
        return cyc                      # an EvaluationError is allowed only for a cyclic graph
    if cyc:
        return False                    # a cycle must raise
    if sorted(order) != sorted(NAMES):
        return False
    pos = {f: k for k, f in enumerate(order)}
    for j in range(N):
        for i in range(N):
            if i != j and dep[j][i] and not pos[NAMES[i]] < pos[NAMES[j]]:
                return False
    return True


def order_respects_dependencies_twin(dep: List[List[bool]]) -> bool:
    """
    pre: _shape_ok(dep)
    post: not _
    """
    order, raised = _run(dep, PERM)
    return (not raised) and order is not None and len(order) == N


def order_respects_dependencies_acyclic(dep: List[List[bool]]) -> bool:
    """
    pre: _shape_ok(dep) and not _has_cycle(dep, N)
    post: _
    """
    order, raised = _run(dep, PERM)
    if raised or sorted(order) != sorted(NAMES):
        return False
    pos = {f: k for k, f in enumerate(order)}
    return all(not (i != j and dep[j][i]) or pos[NAMES[i]] < pos[NAMES[j]] for j in range(N) for i in range(N))
