"""Concrete replay for C32 on real joblib workers: completion order is forced with sleeps."""
import time


def sleep_ret(v, delay):
    time.sleep(delay)
    return v


def replay(kind, vals, perm, n_jobs, step=0.25):
    import sys
    import accelforge.util.parallel  # noqa
    P = sys.modules["accelforge.util.parallel"]
    n = len(vals)
    pos = {j: k for k, j in enumerate(perm)}          # job j completes k-th
    workers = max(n_jobs, n, 2) if n_jobs > 1 else 1
    # warm the worker pool so that start-up time does not reorder completions
    if workers > 1 and n > 1:
        P.parallel([P.delayed(sleep_ret)(0, 0.01) for _ in range(workers)], n_jobs=workers)
    mk = lambda j: P.delayed(sleep_ret)(vals[j], step * pos.get(j, 0))
    if kind == "dict":
        out = P.parallel({f"k{j}": mk(j) for j in range(n)}, n_jobs=workers)
        ok = list(out.keys()) == [f"k{j}" for j in range(n)] and all(out[f"k{j}"] == vals[j] for j in range(n))
    elif kind == "generator":
        out = list(P.parallel([mk(j) for j in range(n)], n_jobs=workers, return_as="generator"))
        ok = out == list(vals)
    elif kind == "generator_unordered":
        out = list(P.parallel([mk(j) for j in range(n)], n_jobs=workers, return_as="generator_unordered"))
        key = lambda x: (x is None, x or 0)
        ok = sorted(out, key=key) == sorted(vals, key=key)
    else:
        out = P.parallel([mk(j) for j in range(n)], n_jobs=workers)
        ok = out == list(vals)
    return ok, out
