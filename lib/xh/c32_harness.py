"""CrossHair harness for C32: the real accelforge.util.parallel.parallel() with joblib's `Parallel`
replaced by a stub that returns an arbitrary value of its contract:

    Parallel(n_jobs, return_as=...)(jobs)
      return_as == "generator_unordered": every job's result exactly once, in ANY order
                                          (the symbolic permutation `perm`)
      return_as == "generator" / "list" / absent: every job's result, in submission order

Job payloads are symbolic integers, so a result that lands in the wrong slot is visible.
Every function below has a PEP316 contract; `*_twin` functions are reachability witnesses whose
post-condition is deliberately false and must be REFUTED by CrossHair."""
from typing import Dict, List, Optional
import sys

import accelforge.util.parallel  # noqa: F401  (the attribute is shadowed by the function)

P = sys.modules["accelforge.util.parallel"]
import os
MAXJ = int(os.environ.get("C32_MAXJ", "4"))   # job-count window of this shard, set by the driver
MINJ = int(os.environ.get("C32_MINJ", "0"))


class _FakeParallel:
    perm: List[int] = []
    calls = 0

    def __init__(self, n_jobs=None, **kw):
        self.kw = kw
        self.n_jobs = n_jobs

    def __call__(self, jobs):
        _FakeParallel.calls += 1
        jobs = list(jobs)
        res = [j[0](*j[1], **j[2]) for j in jobs]
        ra = self.kw.get("return_as")
        if ra == "generator_unordered":
            return (res[i] for i in _FakeParallel.perm)
        if ra == "generator":
            return (r for r in res)
        return list(res)


def _ident(x):
    return x


def _run(jobs, perm, n_jobs, **kw):
    _FakeParallel.perm = perm
    _FakeParallel.calls = 0
    old = P.Parallel
    P.Parallel = _FakeParallel
    try:
        out = P.parallel(jobs, n_jobs=n_jobs, **kw)
        if kw.get("return_as") is not None:
            out = list(out)      # generators are lazy: drain them while the stub is installed
        return out
    finally:
        P.Parallel = old


def _is_perm(perm: List[int], n: int) -> bool:
    return len(perm) == n and sorted(perm) == list(range(n))


def list_in_job_order(vals: List[int], perm: List[int], n_jobs: int) -> bool:
    """
    pre: MINJ <= len(vals) <= MAXJ
    pre: 1 <= n_jobs <= 16
    pre: _is_perm(perm, len(vals))
    post: _
    """
    jobs = [P.delayed(_ident)(v) for v in vals]
    out = _run(jobs, perm, n_jobs)
    return out == list(vals)


def list_in_job_order_twin(vals: List[int], perm: List[int], n_jobs: int) -> bool:
    """
    pre: max(2, MINJ) <= len(vals) <= MAXJ
    pre: 2 <= n_jobs <= 16
    pre: _is_perm(perm, len(vals))
    post: not _
    """
    jobs = [P.delayed(_ident)(v) for v in vals]
    out = _run(jobs, perm, n_jobs)
    return out == list(vals) and _FakeParallel.calls == 1


def dict_keys_to_own_result(vals: List[int], perm: List[int], n_jobs: int) -> bool:
    """
    pre: MINJ <= len(vals) <= MAXJ
    pre: 1 <= n_jobs <= 16
    pre: _is_perm(perm, len(vals))
    post: _
    """
    jobs = {f"k{i}": P.delayed(_ident)(v) for i, v in enumerate(vals)}
    out = _run(jobs, perm, n_jobs)
    return list(out.keys()) == [f"k{i}" for i in range(len(vals))] and all(out[f"k{i}"] == v for i, v in enumerate(vals))


def dict_keys_to_own_result_twin(vals: List[int], perm: List[int], n_jobs: int) -> bool:
    """
    pre: max(2, MINJ) <= len(vals) <= MAXJ
    pre: 2 <= n_jobs <= 16
    pre: _is_perm(perm, len(vals))
    post: not _
    """
    jobs = {f"k{i}": P.delayed(_ident)(v) for i, v in enumerate(vals)}
    out = _run(jobs, perm, n_jobs)
    return all(out[f"k{i}"] == v for i, v in enumerate(vals)) and _FakeParallel.calls == 1


def generator_in_job_order(vals: List[int], perm: List[int], n_jobs: int) -> bool:
    """
    pre: MINJ <= len(vals) <= MAXJ
    pre: 1 <= n_jobs <= 16
    pre: _is_perm(perm, len(vals))
    post: _
    """
    jobs = [P.delayed(_ident)(v) for v in vals]
    out = list(_run(jobs, perm, n_jobs, return_as="generator"))
    return out == list(vals)


def generator_unordered_is_a_permutation(vals: List[int], perm: List[int], n_jobs: int) -> bool:
    """
    pre: MINJ <= len(vals) <= MAXJ
    pre: 1 <= n_jobs <= 16
    pre: _is_perm(perm, len(vals))
    post: _
    """
    jobs = [P.delayed(_ident)(v) for v in vals]
    out = list(_run(jobs, perm, n_jobs, return_as="generator_unordered"))
    return sorted(out) == sorted(vals)


# Results that are None (or any falsy value) are legitimate results and must keep their slot.  Job
# payloads of Optional type multiply the paths, so these two conditions are explored for <= 3 jobs.
def list_in_job_order_optional_results(vals: List[Optional[int]], perm: List[int], n_jobs: int) -> bool:
    """
    pre: 0 <= len(vals) <= 3
    pre: 1 <= n_jobs <= 16
    pre: _is_perm(perm, len(vals))
    post: _
    """
    jobs = [P.delayed(_ident)(v) for v in vals]
    out = _run(jobs, perm, n_jobs)
    return len(out) == len(vals) and all((a is None and b is None) or (a is not None and b is not None and a == b) for a, b in zip(out, vals))


def dict_keys_to_own_result_optional_results(vals: List[Optional[int]], perm: List[int], n_jobs: int) -> bool:
    """
    pre: 0 <= len(vals) <= 3
    pre: 1 <= n_jobs <= 16
    pre: _is_perm(perm, len(vals))
    post: _
    """
    jobs = {f"k{i}": P.delayed(_ident)(v) for i, v in enumerate(vals)}
    out = _run(jobs, perm, n_jobs)
    return list(out.keys()) == [f"k{i}" for i in range(len(vals))] and all(
        (out[f"k{i}"] is None and v is None) or (out[f"k{i}"] is not None and v is not None and out[f"k{i}"] == v) for i, v in enumerate(vals))
