import sympy, z3, time, itertools, sys
from fractions import Fraction
import accelforge.mapper.FFM._make_pmappings.make_pmappings_from_templates.make_tile_shapes as M
from accelforge.mapper.FFM._make_pmappings.make_pmappings_from_templates.make_tile_shapes import geq_leq_zero, diff_geq_leq_zero, ComparisonResult as CR

class Tr:
    """sympy -> z3 (integers for symbols, reals for arithmetic)."""
    def __init__(self):
        self.vars = {}; self.side = []; self.n = 0
    def fresh(self, p):
        self.n += 1; return z3.Int(f"{p}{self.n}")
    def __call__(self, e):
        e = sympy.sympify(e)
        if e.is_Symbol:
            return z3.ToReal(self.vars.setdefault(e.name, z3.Int(e.name)))
        if e.is_Integer: return z3.RealVal(int(e))
        if e.is_Rational: return z3.RealVal(Fraction(int(e.p), int(e.q)))
        if e.is_Float: return z3.RealVal(Fraction(float(e)))
        if e.is_Add:
            r = self(e.args[0])
            for a in e.args[1:]: r = r + self(a)
            return r
        if e.is_Mul:
            r = self(e.args[0])
            for a in e.args[1:]: r = r * self(a)
            return r
        if e.is_Pow:
            b, x = e.args
            if x.is_Integer:
                bb = self(b); k = int(x)
                if k >= 0:
                    r = z3.RealVal(1)
                    for _ in range(k): r = r * bb
                    return r
                inv = z3.Real(f"inv{self.n}"); self.n += 1
                r = z3.RealVal(1)
                for _ in range(-k): r = r * bb
                self.side.append(inv * r == 1)   # requires r != 0 (positive symbols)
                return inv
            raise NotImplementedError(e)
        if isinstance(e, sympy.Max) or isinstance(e, sympy.Min):
            args = [self(a) for a in e.args]
            r = args[0]
            for a in args[1:]:
                r = z3.If(a > r, a, r) if isinstance(e, sympy.Max) else z3.If(a < r, a, r)
            return r
        if isinstance(e, sympy.ceiling):
            x = self(e.args[0]); c = self.fresh("ceil")
            self.side.append(z3.And(z3.ToReal(c) - 1 < x, x <= z3.ToReal(c)))
            return z3.ToReal(c)
        if isinstance(e, sympy.floor):
            x = self(e.args[0]); c = self.fresh("floor")
            self.side.append(z3.And(z3.ToReal(c) <= x, x < z3.ToReal(c) + 1))
            return z3.ToReal(c)
        if isinstance(e, sympy.Heaviside):
            x = self(e.args[0])
            return z3.If(x > 0, z3.RealVal(1), z3.If(x < 0, z3.RealVal(0), z3.RealVal(Fraction(1,2))))
        raise NotImplementedError(type(e))

def check_verdict(f, bounds, verdict, timeout=20000):
    """Return None if verdict holds on all integer points of box; else a counterexample dict."""
    if verdict == CR.UNKNOWN: return None
    tr = Tr(); zf = tr(f)
    s = z3.Solver(); s.set("timeout", timeout)
    for sym, lo, hi in bounds:
        v = tr.vars.setdefault(sym.name, z3.Int(sym.name)); s.add(v >= lo, v <= hi)
    s.add(*tr.side)
    bad = {CR.ALWAYS_GEQ_THAN_ZERO: zf < 0, CR.ALWAYS_LEQ_THAN_ZERO: zf > 0, CR.ALWAYS_EQUAL_TO_ZERO: zf != 0}[verdict]
    s.add(bad)
    r = s.check()
    if str(r) == "unsat": return None
    if str(r) == "sat":
        m = s.model(); return {k: m[v] for k, v in tr.vars.items()}
    return "unknown"

a, b, c = [sympy.Symbol(n, integer=True, positive=True) for n in "abc"]
bounds = ((a,1,12),(b,1,8),(c,1,6))
tests = [
  12288/a + 6144/b + 26112,
  a*b/64 + b/64 + sympy.Rational(1,64),
  sympy.ceiling(12/a)*a - 12,
  sympy.ceiling(a/b) - a/b,
  sympy.Max(a*b, 8*c) - 8*c,
  sympy.Max(768/a, 96*b) * (3 + a) ,
  a - b,
  sympy.ceiling(12/a) * (a + 1),
  sympy.Min(a, b) - a,
]
for f in tests:
    t=time.time()
    v = geq_leq_zero(f, bounds)
    cex = check_verdict(f, bounds, v)
    print("f =", f, "| verdict", v.name, "| cex", cex, round(time.time()-t,2))
    for sym in (a, b, c):
        if sym in f.free_symbols:
            v = diff_geq_leq_zero(f, sym, bounds)
            print("    d/d%s verdict %s" % (sym, v.name))
