from typing import List, Any
import re as _re
import accelforge.util._basetypes as B
from accelforge.util._basetypes import EvalsTo, EvaluationError

N = 4
NAMES = [f"f{i}" for i in range(N)]

class _FakeRe:
    """Stub for the `re` module inside _basetypes: 'does expression of field j mention field i?'
    is answered from the symbolic adjacency matrix instead of from text."""
    dep: List[List[bool]] = []
    @staticmethod
    def escape(s): return s
    @staticmethod
    def findall(pat, text):
        # pat = r"\b" + name + r"\b"; text = "expr<j>"
        i = int(pat[3:-2]); j = int(text[4:])
        return ["x"] if _FakeRe.dep[j][i] else []

def _has_cycle(dep, n):
    # reference: repeated removal of nodes with all deps removed
    removed = [False]*n
    for _ in range(n):
        for j in range(n):
            if not removed[j] and all(removed[i] or not dep[j][i] or i == j for i in range(n)):
                removed[j] = True
    return not all(removed)

def check_topo(dep: List[List[bool]]) -> bool:
    """
    pre: len(dep) == 4 and all(len(r) == 4 for r in dep)
    post: _
    """
    n = N
    _FakeRe.dep = dep
    old = B.re
    B.re = _FakeRe
    try:
        triples = [(NAMES[j], f"expr{j}", EvalsTo[Any]) for j in range(n)]
        try:
            order = B._get_parsable_field_order((), triples)
            raised = False
        except EvaluationError:
            raised = True
    finally:
        B.re = old
    cyc = _has_cycle(dep, n)
    if raised:
        return cyc
    if cyc:
        return False
    if sorted(order) != sorted(NAMES):
        return False
    pos = {f: k for k, f in enumerate(order)}
    for j in range(n):
        for i in range(n):
            if i != j and dep[j][i] and not pos[NAMES[i]] < pos[NAMES[j]]:
                return False
    return True
