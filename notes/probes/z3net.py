import z3, time
from accelforge.frontend._workload_isl._symbolic import Irrelevant, Relevant
from accelforge.model._looptree.reuse.symbolic._network import MeshTopologyModel, AllToAllTopologyModel
class NoDist:
    def _get_physical_fanout_along(self, d, default=1): return 1
NMAX, SMAX = 32, 8
n, st, vol = z3.Int("n"), z3.Int("stride"), z3.Int("vol")
pre = [n >= 1, n <= NMAX, st >= 1, st <= SMAX, vol >= 1]
def ref_mesh(unicast):
    # destinations at positions i*st, i in [0,n); source at 0. link p connects p -> p+1.
    total = 0
    for i in range(NMAX):
        if unicast:
            total = total + z3.If(i < n, i * st * vol, 0)          # own value, i*st hops
    if not unicast:
        total = (n - 1) * st * vol if False else z3.Sum([z3.If(z3.And(p < (n - 1) * st), vol, 0) for p in range((NMAX-1)*SMAX)])
    # per-link traffic: link p carries values of destinations beyond it
    traffics = []
    for p in range((NMAX - 1) * SMAX):
        if unicast:
            t = z3.Sum([z3.If(z3.And(i < n, i * st > p), vol, 0) for i in range(NMAX)])
        else:
            t = z3.If(p < (n - 1) * st, vol, 0)
        traffics.append(t)
    mx = z3.Int("mx")
    cons = [mx >= t for t in traffics] + [z3.Or([mx == t for t in traffics] + [mx == 0])]
    return total, mx, cons
for name, rel, uni in [("mesh-multicast", Irrelevant(), False), ("mesh-unicast", Relevant("r"), True)]:
    c = MeshTopologyModel().per_loop_transfer_cost(rel, shape_repeats=n, last_fanout=st, volume=vol, src_component=NoDist(), dim_name="X")
    total, mx, cons = ref_mesh(uni)
    for what, model_v, ref_v in [("total", c.total_cost, total), ("traffic", c.max_traffic, mx)]:
        s = z3.Solver(); s.set("timeout", 120000); s.add(pre); s.add(cons)
        s.add(model_v != ref_v)
        t = time.time(); r = s.check()
        print(name, what, r, round(time.time() - t, 1), (s.model()[n], s.model()[st], s.model()[vol]) if str(r) == "sat" else "")
