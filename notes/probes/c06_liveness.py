import copy, itertools, sympy
import accelforge as af
from accelforge.frontend.spec import Spec
from accelforge.frontend.mapping import Storage, Temporal, Reservation
from accelforge.mapper import Metrics
from accelforge.util.parallel import set_n_parallel_jobs
set_n_parallel_jobs(1)
import accelforge.mapper.FFM._make_pmappings.make_pmappings as pm
from accelforge.model.run_model import run_model
from accelforge.mapper.FFM._make_pmappings.make_pmappings_from_templates.make_tile_shapes import set_last_tile_shape_to_one
B = {"m": 4, "n0": 6, "n1": 4}
spec = Spec.from_yaml(af.examples.arches.simple, af.examples.workloads.basic.matmuls,
    jinja_parse_data={"N_EINSUMS": 1, "M": 8, "KN": 8, "GlobalBufferSize": 8*16})
spec.mapper.metrics = Metrics.ENERGY | Metrics.LATENCY
spec = copy.deepcopy(spec)._spec_eval_expressions(eval_arch=False, eval_non_arch=True)
e2j = pm.get_jobs(spec, spec.mapper.metrics, spec.workload.einsum_names, True, False)
pm._fill_jobs_with_memories_to_track(e2j, spec, spec.mapper.metrics, False, False)
TENSORS = {"T0": ("m", "n0"), "W0": ("n0", "n1"), "T1": ("m", "n1")}
bad = 0; n = 0
for d in e2j.values():
  for jobs in d.values():
    for job in jobs:
        job.constraints.set_loop_indices(job.mapping.nodes)
        set_last_tile_shape_to_one(job.mapping)
        symbols, df, pmu, usage, t2m, actions = run_model(job)
        nodes = [x for x in job.mapping.nodes if not isinstance(x, Reservation)]
        loops = [x for x in nodes if isinstance(x, Temporal)]
        pos = {id(x): i for i, x in enumerate(nodes)}
        syms = [l.tile_shape for l in loops if isinstance(l.tile_shape, sympy.Symbol)]
        # all divisor-chain assignments for the symbols (bounds 4)
        def chains():
            for vals in itertools.product([1, 2, 4, 8], repeat=len(syms)):
                env = dict(zip(syms, vals)); ok = True; trips = []
                cur = dict(m=8, n0=8, n1=8)
                for l in loops:
                    ts = env.get(l.tile_shape, l.tile_shape)
                    if cur[l.rank_variable] % ts: ok = False; break
                    trips.append(cur[l.rank_variable] // ts); cur[l.rank_variable] = ts
                if ok: yield env, trips
        for env, trips in chains():
            n += 1
            deg = any(t == 1 for t in trips)
            model_usage = float(sympy.sympify(pmu.get("usage<SEP>memory<SEP>GlobalBuffer", 0)).subs({k: v for k, v in env.items()}))
            # ---- element-level liveness simulation ----
            holders = [(x, t) for x in nodes if isinstance(x, Storage) and x.component == "GlobalBuffer" for t in x.tensors]
            steps = list(itertools.product(*[range(t) for t in trips]))
            # coordinate of rank var at a step: mixed radix over the loops of that rank var
            def coord(step, rv):
                c = 0
                for l, i, tr in zip(loops, step, trips):
                    if l.rank_variable == rv: c = c * tr + i
                return c
            peak = 0
            uses = {}   # (holder idx) -> visit -> elem -> [first,last]
            for hi, (h, t) in enumerate(holders):
                above = [j for j, l in enumerate(loops) if pos[id(l)] < pos[id(h)]]
                u = {}
                for ti, st in enumerate(steps):
                    visit = tuple(st[j] for j in above)
                    e = tuple(coord(st, rv) for rv in TENSORS[t])
                    fl = u.setdefault(visit, {}).setdefault(e, [ti, ti]); fl[1] = ti
                uses[hi] = (above, u)
            for ti, st in enumerate(steps):
                occ = 0
                for hi, (h, t) in enumerate(holders):
                    above, u = uses[hi]
                    visit = tuple(st[j] for j in above)
                    occ += sum(1 for e, (f, l) in u[visit].items() if f <= ti <= l)
                peak = max(peak, occ)
            ref_usage = peak * 8 / (8 * 16)
            if abs(ref_usage - model_usage) > 1e-12:
                bad += 1; badnd = globals().get('badnd', 0) + (0 if deg else 1); globals()['badnd'] = badnd; lower = globals().get('lower', 0) + (1 if model_usage < ref_usage else 0); globals()['lower'] = lower
                if not deg: print("MISMATCH", job.mapping.compact_str(), env, "model", model_usage * 16, "ref", ref_usage * 16)
print("assignments", n, "mismatches", bad, "of which non-degenerate", globals().get("badnd", 0), "model<ref", globals().get("lower", 0))
