import sympy, itertools, numbers, unittest.mock as mock
import pandas as pd, numpy as np
import accelforge as af
from accelforge.frontend.spec import Spec
from accelforge.model.main import evaluate_mapping
from accelforge.mapper import Metrics
import accelforge.mapper.FFM.mappings as MM
from accelforge.util.parallel import set_n_parallel_jobs
set_n_parallel_jobs(1)
spec = Spec.from_yaml(af.examples.arches.simple, af.examples.workloads.basic.matmuls,
    af.examples.mappings.fused_matmuls_to_simple if hasattr(af.examples, "mappings") else None,
    jinja_parse_data={"N_EINSUMS": 2, "M": 8, "KN": 8})
spec.model.metrics = Metrics.all_metrics()
res = evaluate_mapping(spec)
print(len(res.data), "rows;", len(res.data.columns), "columns")
cells = {}
row = {}
for c in res.data.columns:
    v = res.data[c].iloc[0]
    if isinstance(v, numbers.Number):
        s = sympy.Symbol("c%d" % len(cells), nonnegative=True); cells[s] = c; row[c] = s
    else:
        row[c] = v
sym = res._update(data=pd.DataFrame({k: pd.Series([v], dtype=object) for k, v in row.items()}))
def smax(a, b):
    f = lambda x, y: sympy.Max(x, y)
    if hasattr(a, "iloc") or hasattr(b, "iloc"):
        a = list(a) if hasattr(a, "iloc") else [a]; b = list(b) if hasattr(b, "iloc") else [b]
        return pd.Series([f(x, y) for x, y in zip(a, b)], dtype=object)
    return f(a, b)
class NPshim:
    maximum = staticmethod(smax)
    def __getattr__(self, k): return getattr(np, k)
with mock.patch.object(MM, "_coerce_numeric", lambda x: x), mock.patch.object(MM, "np", NPshim()):
    tot = sym.energy()
    print("energy() =", tot)
    for flags in itertools.product([False, True], repeat=4):
        if not any(flags): continue
        br = sym.energy(*flags)
        assert sympy.simplify(sum(br.values()) - tot) == 0, flags
    print("all 15 energy breakdowns sum to energy(): OK (sympy)")
    print("latency() =", sym.latency())
    print("latency(per_einsum) =", sym.latency(per_einsum=True))
    print("resource_usage() =", sym.resource_usage())
    print("Total energy cell:", row.get("Total<SEP>energy"), " Total latency cell:", row.get("Total<SEP>latency"))
