import sys, time, inspect, z3
from astsym import *
from astsym import _range
import accelforge.mapper.FFM._pareto_df.fast_pareto as FP
src = inspect.getsource(FP._sfs_bnl_core.py_func)
src = src[src.index("def _sfs_bnl_core"):]
N, D = int(sys.argv[1]), int(sys.argv[2])
t0 = time.time()
solver = z3.Solver()
data = SArr((N, D), [z3.Real(f"x{i}_{k}") for i in range(N) for k in range(D)])
mask = SArr((N,), [False] * N)
it = Interp(src, {"np": NP, "numba": NUMBA, "range": _range, "NUMPY_FLOAT_TYPE": "real"}, solver)
it.run({"data": data, "sorted_idx": SArr((N,), list(range(N))), "offsets": SArr((2,), [0, N]),
        "n_total_groups": 1, "result_mask": mask})
print("encode time", round(time.time() - t0, 1), "feasibility checks", it.n_feas)
X = lambda i, k: data.cells[i * D + k]
def dominated(i):
    return z3.Or([z3.And(z3.And([X(j, k) <= X(i, k) for k in range(D)]), z3.Or([X(j, k) < X(i, k) for k in range(D)]))
                  for j in range(N) if j != i])
s = z3.Solver(); s.add(it.side); s.add([z3.And(c >= -10**6, c <= 10**6) for c in data.cells])
s.add(z3.Or([zbool(mask.cells[i]) != z3.Not(dominated(i)) for i in range(N)]))
t1 = time.time(); r = s.check(); print("N,D", N, D, "result", r, "solve time", round(time.time() - t1, 1))
if str(r) == "sat":
    m = s.model()
    rows = [[m.eval(X(i, k), model_completion=True) for k in range(D)] for i in range(N)]
    print(rows, [m.eval(zbool(c)) for c in mask.cells])
