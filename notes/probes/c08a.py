import copy, time, sys, unittest.mock as mock
import sympy
import accelforge as af
from accelforge.frontend.spec import Spec
from accelforge.mapper import Metrics
from accelforge.util.parallel import set_n_parallel_jobs
set_n_parallel_jobs(1)
import accelforge.mapper.FFM._make_pmappings.make_pmappings as pm
import accelforge.mapper.FFM._make_pmappings.make_pmappings_from_templates.make_tile_shapes as M
spec = Spec.from_yaml(af.examples.arches.simple, af.examples.workloads.basic.matmuls,
    jinja_parse_data={"N_EINSUMS": 1, "M": 64, "KN": 48, "GlobalBufferSize": 8*1024, "GlobalBufferThroughput": 8})
spec.mapper.metrics = Metrics.ENERGY | Metrics.LATENCY
spec = copy.deepcopy(spec)._spec_eval_expressions(eval_arch=False, eval_non_arch=True)
e2j = pm.get_jobs(spec, spec.mapper.metrics, spec.workload.einsum_names, True, False)
pm._fill_jobs_with_memories_to_track(e2j, spec, spec.mapper.metrics, False, False)
rec = []
real_co, real_gt = M.coalesce_symbols, M.get_tile_shape_choices
cur = {}
def co(**kw):
    out = real_co(**kw)
    rec.append(dict(stage=list(kw["symbols_enumerated"]), goals={k: (v.goal, v.tolerance) for k, v in out.items()}, tmpl=cur["name"]))
    return out
def gt(**kw):
    cur["objs"] = [(o.name, o.formula, o.max_value, o.min_value, o.only_care_if_valid) for o in kw["objectives"]]
    cur["symbols"] = kw["symbols"]; cur["rel"] = kw["what_tiles_symbol"]; cur["keep"] = kw["keep_symbols"]
    r = real_gt(**kw); cur["n"] = len(r); return r
jobs = [j for d in e2j.values() for js in d.values() for j in js]
print("templates", len(jobs))
with mock.patch.object(M, "coalesce_symbols", co), mock.patch.object(M, "get_tile_shape_choices", gt):
    for ji, job in enumerate(jobs):
        cur["name"] = f"{ji}:{job.mapping.compact_str()}"
        n0 = len(rec); t = time.time()
        df, _ = M.make_tile_shapes(job)
        print(ji, "symbols", cur["symbols"], "rows", len(df), "stages", len(rec) - n0, f"{time.time()-t:.1f}s")
        if ji == len(jobs) - 1:
            print("objectives:")
            for o in cur["objs"]: print("   ", o)
            print("bounds", cur["rel"].bounds, "tiles", cur["rel"].what_tiles_symbol, "keep", cur["keep"])
            for r in rec[n0:]:
                print("  stage", r["stage"])
                for k, v in r["goals"].items(): print("       ", v, k)
