import z3, time, itertools
from fractions import Fraction as F
def divisors(n): return [d for d in range(1, n + 1) if n % d == 0]
class FD:
    """finite-domain integer: one-hot over its candidate values"""
    def __init__(self, name, dom):
        self.dom = dom; self.b = [z3.Bool(f"{name}={d}") for d in dom]
    def cons(self):
        return z3.And(z3.Or(self.b), *[z3.Not(z3.And(x, y)) for x, y in itertools.combinations(self.b, 2)])
    def val(self): return z3.Sum([z3.If(b, z3.RealVal(d), 0) for b, d in zip(self.b, self.dom)])
    def inv(self): return z3.Sum([z3.If(b, z3.RealVal(F(1, d)), 0) for b, d in zip(self.b, self.dom)])
def prod(x, y): return z3.Sum([z3.If(z3.And(bx, by), z3.RealVal(dx * dy), 0) for bx, dx in zip(x.b, x.dom) for by, dy in zip(y.b, y.dom)])
def divides(x, y): return z3.And([z3.Not(z3.And(bx, by)) for bx, dx in zip(x.b, x.dom) for by, dy in zip(y.b, y.dom) if dy % dx != 0])
def mk(p): return {"s1": FD(p + "s1", divisors(48)), "s2": FD(p + "s2", divisors(48)), "s3": FD(p + "s3", divisors(48)), "s4": FD(p + "s4", divisors(64))}
a, b = mk("a_"), mk("b_"); s0 = FD("s0", divisors(64))
def rel(v): return z3.And(*[x.cons() for x in v.values()], divides(v["s3"], v["s1"]), divides(v["s4"], s0))
def mx(*xs):
    r = xs[0]
    for x in xs[1:]: r = z3.If(x > r, x, r)
    return r
def usageRF(v): return (prod(v["s3"], v["s4"]) + v["s4"].val() + 1) / 64
def usageGLB(v): return (prod(s0, v["s1"]) + prod(s0, v["s2"]) + prod(v["s2"], v["s3"])) / 8192
def lat(v): return mx(z3.RealVal(147456), 1179648 * v["s1"].inv() + 589824 * s0.inv(),
                      72960 + 18432 * v["s4"].inv() + 36864 * v["s3"].inv() + 18432 * v["s2"].inv(),
                      -1536 + 73728 * v["s4"].inv() + 147456 * v["s3"].inv() + 73728 * v["s2"].inv() + 147456 * v["s1"].inv() + 73728 * s0.inv())
def en(v): return 2672640 + 5603328 * v["s4"].inv() + 12091392 * v["s3"].inv() + 5603328 * v["s2"].inv() + 161611776 * v["s1"].inv() + 81395712 * s0.inv()
def g2(v): return (v["s1"].val() + prod(v["s2"], v["s3"]) + v["s2"].val()) / 8192
def g4(v): return 73728 * v["s4"].inv() + 147456 * v["s3"].inv() + 73728 * v["s2"].inv() + 147456 * v["s1"].inv()
def g5(v): return 18432 * v["s4"].inv() + 36864 * v["s3"].inv() + 18432 * v["s2"].inv()
def g6(v): return 5603328 * v["s4"].inv() + 12091392 * v["s3"].inv() + 5603328 * v["s2"].inv() + 161611776 * v["s1"].inv()
dom = z3.And(a["s4"].val() == b["s4"].val(), g2(a) <= g2(b), a["s1"].val() >= b["s1"].val(), g4(a) <= g4(b), g5(a) <= g5(b), g6(a) <= g6(b))
valid = lambda v: z3.And(usageRF(v) <= 1, usageGLB(v) <= 1)
concl = z3.And(z3.Implies(valid(b), valid(a)), lat(a) <= lat(b), en(a) <= en(b))
s = z3.Solver(); s.set("timeout", 600000)
s.add(s0.cons(), rel(a), rel(b), usageRF(a) <= 1, usageRF(b) <= 1, dom, z3.Not(concl))
t = time.time(); r = s.check(); print(r, round(time.time() - t, 1))
if str(r) == "sat":
    m = s.model()
    val = lambda x: [d for bb, d in zip(x.b, x.dom) if z3.is_true(m.eval(bb))][0]
    print("s0", val(s0), "a", {k: val(v) for k, v in a.items()}, "b", {k: val(v) for k, v in b.items()})
    for nm, f in [("usageGLB", usageGLB), ("lat", lat), ("en", en), ("g2", g2), ("g4", g4), ("g5", g5), ("g6", g6)]:
        print(nm, m.eval(f(a)).as_decimal(6), m.eval(f(b)).as_decimal(6))
