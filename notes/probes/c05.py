import copy, itertools, time, sys
from fractions import Fraction
import sympy, z3
import accelforge as af
from accelforge.frontend.spec import Spec
from accelforge.frontend import arch as A
from accelforge.frontend.mapping import Storage, Temporal, Compute as MCompute, Reservation
from accelforge.mapper import Metrics
from accelforge.util.parallel import set_n_parallel_jobs
set_n_parallel_jobs(1)
import accelforge.mapper.FFM._make_pmappings.make_pmappings as pm
from accelforge.model.run_model import run_model
from accelforge.mapper.FFM._make_pmappings.make_pmappings_from_templates.make_tile_shapes import set_last_tile_shape_to_one

K = int(sys.argv[1]) if len(sys.argv) > 1 else 3
spec = Spec.from_yaml(af.examples.arches.simple, af.examples.workloads.basic.matmuls,
    jinja_parse_data={"N_EINSUMS": 1, "M": 12, "KN": 8, "GlobalBufferSize": 8*64})
spec.mapper.metrics = Metrics.ENERGY | Metrics.LATENCY | Metrics.ACTIONS
spec = copy.deepcopy(spec)._spec_eval_expressions(eval_arch=False, eval_non_arch=True)
e2j = pm.get_jobs(spec, spec.mapper.metrics, spec.workload.einsum_names, True, False)
pm._fill_jobs_with_memories_to_track(e2j, spec, spec.mapper.metrics, False, False)
TENSORS = {"T0": ("m", "n0"), "W0": ("n0", "n1"), "T1": ("m", "n1")}
OUT = {"T1"}
P = lambda n: sympy.Symbol(n, positive=True)

def to_z3(e, env):
    e = sympy.sympify(e)
    if e.is_Symbol: return env[e.name]
    if e.is_Integer: return z3.RealVal(int(e))
    if e.is_Rational: return z3.RealVal(Fraction(int(e.p), int(e.q)))
    if e.is_Float: return z3.RealVal(Fraction(float(e)))
    if e.is_Add: return z3.Sum([to_z3(a, env) for a in e.args])
    if e.is_Mul:
        r = z3.RealVal(1)
        for a in e.args: r = r * to_z3(a, env)
        return r
    if e.is_Pow and e.args[1].is_Integer and int(e.args[1]) > 0:
        r = z3.RealVal(1)
        for _ in range(int(e.args[1])): r = r * to_z3(e.args[0], env)
        return r
    raise NotImplementedError(e)

tot_t = 0; nq = 0
for e, d in e2j.items():
  for comp, jobs in d.items():
    for ji, job in enumerate(jobs):
        name = job.mapping.compact_str()
        for c in list(job.flattened_arch) + list(job.spec_one_einsum.arch.get_nodes_of_type(A.Component)):
            if isinstance(c, A.Memory):
                c.bits_per_value = {t: P(f"bpv_{c.name}_{t}") for t in TENSORS}
        job.rank_variable_bounds = {k: sympy.Symbol("B_"+k, integer=True, positive=True) for k in job.rank_variable_bounds}
        job.constraints.set_loop_indices(job.mapping.nodes)
        set_last_tile_shape_to_one(job.mapping)
        symbols, df, pmu, usage, t2m, actions = run_model(job)
        nodes = [n for n in job.mapping.nodes if not isinstance(n, Reservation)]
        loops = [n for n in nodes if isinstance(n, Temporal)]
        # trip-count variables and substitution for B_* and stride*
        nvar = [z3.Int(f"n{j}") for j in range(len(loops))]
        nsym = [sympy.Symbol(f"n{j}", integer=True, positive=True) for j in range(len(loops))]
        subs = {}
        for rv in job.rank_variable_bounds:
            idxs = [j for j, l in enumerate(loops) if l.rank_variable == rv]
            prod = sympy.Integer(1)
            for j in reversed(idxs):
                ts = loops[j].tile_shape
                if isinstance(ts, sympy.Symbol): subs[ts] = prod       # tile below loop j
                else: assert ts == 1 and prod == 1, (ts, prod)
                prod = prod * nsym[j]
            subs[job.rank_variable_bounds[rv]] = prod
        env = {f"n{j}": z3.ToReal(nvar[j]) for j in range(len(loops))}
        # ---------------- reference executor (operational, guarded unrolling) -------------
        pos = {id(n): i for i, n in enumerate(nodes)}
        def loops_above(node): return [j for j, l in enumerate(loops) if pos[id(l)] < pos[id(node)]]
        def tile(node, tensor):   # number of elements of `tensor` under `node`
            t = z3.RealVal(1)
            for j, l in enumerate(loops):
                if pos[id(l)] > pos[id(node)] and l.rank_variable in TENSORS[tensor]:
                    t = t * z3.ToReal(nvar[j])
            return t
        counts = {}   # (component, tensor, action) -> z3 real (in values)
        def add(k, v): counts[k] = counts.get(k, z3.RealVal(0)) + v
        compute = nodes[-1]
        for tensor in TENSORS:
            chain = [n for n in nodes if isinstance(n, Storage) and tensor in n.tensors] + [compute]
            rel = [j for j, l in enumerate(loops) if l.rank_variable in TENSORS[tensor]]
            for parent, child in zip(chain, chain[1:]):
                above = loops_above(child)
                t = tile(child, tensor) if child is not compute else z3.RealVal(1)
                seen_before = []    # list of (guard, tile-id) in program order
                for idx in itertools.product(range(K), repeat=len(above)):
                    g = z3.And([z3.IntVal(i) < nvar[j] for i, j in zip(idx, above)])
                    tid = tuple(i for i, j in zip(idx, above) if j in rel)
                    first = z3.Not(z3.Or([g2 for g2, tid2 in seen_before if tid2 == tid])) if tensor in OUT else z3.BoolVal(False)
                    seen_before.append((g, tid))
                    fetch = z3.If(z3.And(g, z3.Not(first)), t, 0)   # skip first fetch of never-written outputs
                    add((parent.component, tensor, "read"), fetch)
                    if child is not compute: add((child.component, tensor, "write"), fetch)
                    if tensor in OUT:
                        wb = z3.If(g, t, 0)
                        if child is not compute: add((child.component, tensor, "read"), wb)
                        add((parent.component, tensor, "write"), wb)
        # ------------- compare with real model (actions are in bits: values*bpv) -----------
        s = z3.Solver(); s.add([z3.And(v >= 1, v <= K) for v in nvar])
        t0 = time.time(); bad = []
        for (compn, tensor, act), ref in counts.items():
            key = f"action<SEP>{compn}<SEP>{tensor}<SEP>{act}"
            model = sympy.sympify(df[key]).xreplace(subs)
            model = sympy.cancel(model)
            bpv = z3.Real(f"bpv_{compn}_{tensor}"); env[f"bpv_{compn}_{tensor}"] = bpv
            s.push(); s.add(bpv > 0); s.add(to_z3(model, env) != ref * bpv)
            r = s.check(); nq += 1
            if str(r) != "unsat": bad.append((key, r, s.model() if str(r) == "sat" else None, model))
            s.pop()
        tot_t += time.time() - t0
        print(("OK " if not bad else "BAD"), ji, name, f"{time.time()-t0:.1f}s")
        for b in bad[:3]: print("    ", b)
print("queries", nq, "solver time", round(tot_t, 1))
