from typing import List
import sys, accelforge.util.parallel
P = sys.modules["accelforge.util.parallel"]

class _FakeParallel:
    """Stub for joblib.Parallel: runs the delayed jobs and yields results in the order `perm`."""
    perm: List[int] = []
    def __init__(self, n_jobs=None, **kw):
        self.kw = kw
    def __call__(self, jobs):
        jobs = list(jobs)
        res = [j[0](*j[1], **j[2]) for j in jobs]
        if self.kw.get("return_as") == "generator_unordered":
            for i in _FakeParallel.perm:
                yield res[i]
        else:
            for r in res:
                yield r

def _ident(x):
    return x

def check_order(perm: List[int], n_jobs: int) -> bool:
    """
    pre: 2 <= len(perm) <= 4
    pre: 2 <= n_jobs <= 16
    pre: sorted(perm) == list(range(len(perm)))
    post: _
    """
    n = len(perm)
    _FakeParallel.perm = perm
    old = P.Parallel
    P.Parallel = _FakeParallel
    try:
        jobs = [P.delayed(_ident)(10 + i) for i in range(n)]
        out = P.parallel(jobs, n_jobs=n_jobs)
    finally:
        P.Parallel = old
    return out == [10 + i for i in range(n)]
