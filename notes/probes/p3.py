import sympy, copy
import accelforge as af
from accelforge.frontend.spec import Spec
from accelforge.frontend.arch import Component
spec = Spec.from_yaml(af.examples.arches.simple, af.examples.workloads.basic.matmuls,
    jinja_parse_data={"N_EINSUMS": 1, "M": 12, "KN": 8})
s1 = spec._spec_eval_expressions(einsum_name="Matmul0")
P = lambda n: sympy.Symbol(n, positive=True)
for c in s1.arch.get_nodes_of_type(Component):
    c.area = P(f"area_{c.name}"); c.leak_power = P(f"leak_{c.name}")
    c.area_scale = P(f"as_{c.name}"); c.leak_power_scale = P(f"ls_{c.name}")
    c.energy_scale = P(f"es_{c.name}"); c.throughput_scale = P(f"ts_{c.name}")
    c.n_parallel_instances = P(f"np_{c.name}")
    for a in c.actions:
        a.energy = P(f"e_{c.name}_{a.name}"); a.throughput = P(f"t_{c.name}_{a.name}")
r1 = s1.calculate_component_costs()
r2 = r1.calculate_component_costs()
for c1, c2 in zip(r1.arch.get_nodes_of_type(Component), r2.arch.get_nodes_of_type(Component)):
    print(c1.name, "area", c1.area, "|", c2.area, "| total", c1.total_area)
    print("   leak", c1.leak_power, "|", c2.leak_power)
    for a1, a2 in zip(c1.actions, c2.actions):
        print("   ", a1.name, a1.energy, "|", a2.energy, "||", a1.throughput, "|", a2.throughput)
