import os, sys, time, copy
import accelforge as af
from accelforge.frontend.spec import Spec
from accelforge.frontend import arch as A
from accelforge.mapper import Metrics
from accelforge.util.parallel import set_n_parallel_jobs
set_n_parallel_jobs(1)
import accelforge.mapper.FFM._make_pmappings.make_pmappings as pm
import sympy
spec = Spec.from_yaml(af.examples.arches.simple, af.examples.workloads.basic.matmuls,
    jinja_parse_data={"N_EINSUMS": 1, "M": 12, "KN": 8, "GlobalBufferSize": 8*64, "GlobalBufferThroughput": 4})
spec.mapper.metrics = Metrics.ENERGY | Metrics.LATENCY | Metrics.ACTIONS
spec = copy.deepcopy(spec)
spec = spec._spec_eval_expressions(eval_arch=False, eval_non_arch=True)
e2j = pm.get_jobs(spec, spec.mapper.metrics, spec.workload.einsum_names, True, False)
pm._fill_jobs_with_memories_to_track(e2j, spec, spec.mapper.metrics, False, False)
from accelforge.model.run_model import run_model
from accelforge.mapper.FFM._make_pmappings.make_pmappings_from_templates.make_tile_shapes import set_last_tile_shape_to_one
P = lambda n: sympy.Symbol(n, positive=True)
def inject(comp):
    if isinstance(comp, A.Component):
        comp.total_leak_power = P(f"leak_{comp.name}")
        for a in comp.actions:
            a.energy = P(f"E_{comp.name}_{a.name}"); a.throughput = P(f"T_{comp.name}_{a.name}")
    if isinstance(comp, A.Memory):
        comp.size = P(f"size_{comp.name}")
        comp.bits_per_value = {t: P(f"bpv_{comp.name}_{t}") for t in ["T0","T1","W0"]}
n=0
for e, d in e2j.items():
    for comp, jobs in d.items():
        for job in jobs:
            n+=1
            if n!=12: continue
            print("=====", job.mapping.compact_str())
            for c in job.flattened_arch: inject(c)
            for c in job.spec_one_einsum.arch.get_nodes_of_type(A.Component): inject(c)
            job.rank_variable_bounds = {k: sympy.Symbol("B_"+k, integer=True, positive=True) for k in job.rank_variable_bounds}
            job.constraints.set_loop_indices(job.mapping.nodes)
            set_last_tile_shape_to_one(job.mapping)
            symbols, df, pmu, usage, t2m, actions = run_model(job)
            for k,v in {**df, **pmu, **usage}.items():
                if k.startswith(("Total","usage","latency","reservation","energy<SEP>GlobalBuffer<SEP>T1")): print("  ", k, "=", v)
