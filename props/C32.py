"""C32 — the parallel runner returns each job's result in job order (Route B, CrossHair).

CrossHair executes the real accelforge.util.parallel.parallel() symbolically; joblib's Parallel is
a stub that yields the job results in a symbolic permutation (its contract for
return_as="generator_unordered").  See lib/xh/c32_harness.py for the contracts."""
from __future__ import annotations

import json
import os
import time

from lib.common import (VERIF, HarnessError, Stats, finish, load_known_findings, main_wrapper)
from lib.xh.driver import parse_call, run_harness

PID = "C32"
HARNESS = os.path.join(VERIF, "lib", "xh", "c32_harness.py")
PROPS = {"list_in_job_order": "list", "dict_keys_to_own_result": "dict", "generator_in_job_order": "generator",
         "generator_unordered_is_a_permutation": "generator_unordered"}
TWINS = ["list_in_job_order_twin", "dict_keys_to_own_result_twin"]
OPTIONAL = {"list_in_job_order_optional_results": "list", "dict_keys_to_own_result_optional_results": "dict"}
PROPS.update(OPTIONAL)


def run(args):
    t0 = time.time()
    if args.replay:
        from lib.xh.c32_replay import replay
        v = json.load(open(args.replay))
        ok, out = replay(v["kind"], v["vals"], v["perm"], v["n_jobs"])
        print("result", out, "OK" if ok else "WRONG ORDER")
        return 0 if ok else 1
    maxj, timeout = (5, 150) if args.tier == "quick" else (6, 1500)
    stats = Stats()
    shards = [(0, 3)] + [(k, k) for k in range(4, maxj + 1)]
    results = []
    from concurrent.futures import ThreadPoolExecutor
    with ThreadPoolExecutor(max_workers=len(shards)) as ex:
        futs = []
        for lo, hi in shards:
            # the unordered generator makes no order claim (multiset only); sorted() over symbolic
            # payloads is expensive, so it is explored for <= 4 jobs only
            # (quick: <= 3 jobs - with exactly 4 jobs the condition needs ~150-200 s of CrossHair time and came back
            # "Not confirmed" when two checks shared the machine; thorough, with its larger budget: <= 4 jobs)
            umax = 3 if args.tier == "quick" else 4
            funcs = [f for f in PROPS if (hi <= umax or f != "generator_unordered_is_a_permutation") and (lo <= 3 or f not in OPTIONAL)] + (TWINS if lo <= 3 else [])
            futs.append((lo, hi, funcs, ex.submit(run_harness, HARNESS, funcs, timeout,
                                                   {"C32_MINJ": str(lo), "C32_MAXJ": str(hi)}, max(2, args.jobs // len(shards)))))
        for lo, hi, funcs, f in futs:
            for r in f.result():
                r["jobs_window"] = [lo, hi]
                results.append(r)
    violations, inconclusive = [], []
    for r in results:
        stats.queries += 1
        name = r["function"]
        stats.solver_s += r["seconds"]
        stats.nontrivial.add(hash((name, tuple(r["jobs_window"]))) & 0xFFFFFFFFFFFF)
        if name in TWINS:
            if r["status"] == "refuted":
                stats.vacuity_ok += 1
            else:
                raise HarnessError(f"reachability twin {name} was not refuted: {r}")
            continue
        stats.obligations += 1
        stats.sample({"condition": name, "jobs_window": r["jobs_window"], "status": r["status"], "seconds": r["seconds"]}, cap=12)
        if r["status"] == "confirmed":
            stats.unsat += 1
        elif r["status"] == "refuted":
            stats.sat += 1
            call = parse_call(r["detail"], name)
            if not call or len(call) != 3:
                raise HarnessError(f"cannot parse counterexample: {r['detail']}")
            vals, perm, n_jobs = call
            # distinct payloads make a misplaced result visible in the replay
            vals = [(None if v is None else 100 + i) for i, v in enumerate(vals)]
            from lib.xh.c32_replay import replay
            ok, out = replay(PROPS[name], vals, list(perm), int(n_jobs))
            stats.replays += 1
            if ok:
                raise HarnessError(f"CrossHair counterexample does not reproduce on real joblib: {r['detail']} -> {out}")
            violations.append(dict(property=PID, kind=PROPS[name], vals=vals, perm=list(perm), n_jobs=int(n_jobs),
                                   observed=str(out), crosshair=r["detail"],
                                   what=f"parallel() ({PROPS[name]} input) returned {out} for jobs {vals} completing in order {list(perm)}"))
        else:
            stats.unknown += 1
            inconclusive.append(r)
    stats.instantiations = len(shards)
    stats.extra["conditions"] = [{k: r[k] for k in ("function", "jobs_window", "status", "seconds")} for r in results]
    if inconclusive:
        stats.extra["inconclusive"] = inconclusive
    return finish(
        PID, args.tier, "model_checking", stats, t0, violations[:5], [],
        functions_encoded=["accelforge.util.parallel.parallel", "accelforge.util.parallel._dict_job",
                           "parallel.<locals>.yield_results", "parallel.<locals>.f"],
        bounds=dict(jobs=f"0..{maxj} (symbolic count, symbolic integer payloads)", n_jobs="1..16 (symbolic)",
                    completion_order="every permutation (symbolic)", per_condition_timeout_s=timeout,
                    unordered_generator=f"multiset condition explored for <= {3 if args.tier == 'quick' else 4} jobs",
                    outside="job lists longer than the bound; progress bars (pbar=None); exceptions inside jobs"),
        assumptions=["joblib.Parallel stub contract: return_as='generator_unordered' yields every result exactly once in an arbitrary order; "
                     "'generator'/list keep submission order",
                     "joblib.delayed is the real one (pure Python)"],
        rule="one CrossHair condition per (entry kind, job-count window); counted confirmed only on 'Confirmed over all paths'; "
             "distinct = (condition, window) pairs; solver_s is CrossHair wall time per condition",
        explanation="CrossHair explores every path of parallel() over symbolic payloads/permutations/worker counts within the window.",
    )


if __name__ == "__main__":
    main_wrapper(PID, run)
