"""C10 — tile-shape candidates and mapspace counts (Route C: source -> SMT; kernel clauses).

The CURRENT sources of _factorize, _factorize_imperfect (make_tile_shapes.py), _divisors and
_count_factorizations (_mathfuncs.py) are fetched with inspect.getsource at every run and executed
by the guarded-merge interpreter lib/astsym with a SYMBOLIC argument n in [1, N]:
   _factorize(n)            member(x) <=> x divides n                      for every x in 1..N
   _factorize_imperfect(n)  for every number of tiles t = ceil(n/s) (s in 1..n) the smallest shape
                            ceil(n/t) is a member, and every member is <= n
   _divisors(n)             member(x) <=> x divides n
   _count_factorizations(n, pattern) == brute-force count of factorisation chains, every pattern of
                            perfect/imperfect loops up to length 3 (quick) / 4 (thorough)
`math.ceil(n**0.5)` is modelled as the integer r with (r-1)^2 < n <= r^2 and `math.ceil(a/b)` as the
integer c with (c-1)*b < a <= c*b (exact for operands < 2^52).
The candidate generator get_possible_factor_sizes itself is encoded too (coarseness 1): its nested
_try_admit closure, the Python sets `factors` / `n_tiles` (guarded collections with `in`, `add`),
round(), the while loop with a symbolic trip count, sorted() over a guarded set and the call into
_factorize (interpreted from its current source) — symbolic outer size n (a multiple of the concrete
inner size), both imperfect modes:
   perfect    member(x) <=> inner | x and x | n
   imperfect  for every multiple s of inner up to n the smallest shape giving ceil(n/s) tiles is a
              member, n is a member (one tile is always achievable), every member is <= n — for EVERY
              outer size n, dividing or not (a non-dividing inner tile is what imperfect mode is for)
ceil(a/b) with a symbolic divisor is linearised over the divisor's bounded domain.  A concrete sweep
of the same function against brute force remains as validation (coarseness 1, inner | outer)."""
from __future__ import annotations

import inspect
import itertools
import json
import textwrap
import time

import z3

from lib.common import (HarnessError, Stats, count_obligation, finish, main_wrapper, run_sharded, z3_check)
from lib.astsym import interp as I

PID = "C10"


def mods():
    import accelforge.mapper.FFM._make_pmappings.make_pmappings_from_templates.make_tile_shapes as MT
    import accelforge.util._mathfuncs as MF
    return MT, MF


def src_of(f):
    t = getattr(f, "__wrapped__", f)
    s = textwrap.dedent(inspect.getsource(t))
    return s[s.index("def " + t.__name__):]


def run_symbolic(fname, N, extra_args=()):
    MT, MF = mods()
    f = {"_factorize": MT._factorize, "_factorize_imperfect": MT._factorize_imperfect, "_divisors": MF._divisors,
         "_count_factorizations": MF._count_factorizations}[fname]
    n = z3.Int("n")
    solver = z3.Solver()
    solver.add(n >= 1, n <= N)
    it = I.Interp(src_of(f), {"np": I.NP, "math": I.MATH, "range": I._range}, solver)
    it.unwind_cap = N + 2
    it.int_bound = N
    it.functions = {"_divisors": MF._divisors, "_count_factorizations": MF._count_factorizations}
    it.module_globals = vars(MF if fname in ("_divisors", "_count_factorizations") else MT)
    names = [a.arg for a in it.tree.args.args]
    it.run(dict(zip(names, (n,) + tuple(extra_args))))
    return n, it


def brute_count(n, pattern):
    if len(pattern) <= 1:
        return 1
    rest = pattern[1:]
    if pattern[0]:
        return sum(brute_count(-(-n // s), rest) for s in range(1, n + 1))
    return sum(brute_count(n // d, rest) for d in range(1, n + 1) if n % d == 0)


def range_split(s, n, N, st, parts=4, timeout_ms=300000):
    """`unknown` fallback: the domain 1..N of the symbolic argument is cut into `parts` sub-ranges and
    the same query is decided on each (still the solver's verdict over every n of the sub-range).
    z3's run time on these mod-heavy queries varies by an order of magnitude with variable naming."""
    st.extra["range_splits"] = st.extra.get("range_splits", 0) + 1
    verdict = "unsat"
    step = -(-N // parts)
    for lo in range(1, N + 1, step):
        s.push()
        s.add(n >= lo, n <= min(N, lo + step - 1))
        r = z3_check(s, st, timeout_ms)
        if r == "sat":
            return "sat"          # the sub-range constraints stay pushed: the caller reads the model
        s.pop()
        if r != "unsat":
            verdict = "unknown"
    return verdict


def shard(payload):
    kind, N, arg = payload
    st = Stats()
    st.instantiations = 1
    viol = []
    MT, MF = mods()
    t0 = time.time()
    if kind in ("_factorize", "_divisors", "_factorize_imperfect"):
        n, it = run_symbolic(kind, N)
        res = it.retval
        if not isinstance(res, I.GList):
            raise HarnessError(f"{kind}: unexpected result {type(res).__name__}")
        st.encode_s += time.time() - t0
        s = z3.Solver()
        s.add(n >= 1, n <= N)
        s.add(it.side)
        rv = z3_check(s, st, 300000)
        if rv != "sat":
            raise HarnessError(f"vacuity check of {kind} N={N}: {rv}")
        st.vacuity_ok += 1
        wrong = []
        if kind != "_factorize_imperfect":
            for x in range(1, N + 1):
                wrong.append(res.member(x) != (n % x == 0))
            label = f"{kind}(n): member(x) <=> x | n, n in 1..{N}"
        else:
            for sv in range(1, N + 1):
                # t = ceil(n/sv) is achievable when sv <= n; the smallest shape with that count, ceil(n/t), must be present
                t = z3.Int(f"t{sv}")
                m_ = z3.Int(f"m{sv}")
                s.add(z3.And((t - 1) * sv < n, n <= t * sv, (m_ - 1) * t < n, n <= m_ * t))
                wrong.append(z3.And(sv <= n, z3.Not(res.member(m_))))
            for g, v in res.items:
                wrong.append(z3.And(I.zbool(g), (v > n) if I.is_sym(v) else z3.BoolVal(False) if True else None))
            label = f"_factorize_imperfect(n): smallest shape of every achievable tile count present, all members <= n, n in 1..{N}"
        # seeded wrong spec (reachability): 'n itself is never a member' must be refuted
        s.push()
        s.add(res.member(n))
        if z3_check(s, st, 60000) != "sat":
            raise HarnessError("seeded wrong expectation not refuted")
        st.mutants_refuted += 1
        s.pop()
        s.add(z3.Or(wrong))
        r = z3_check(s, st, 400000)
        if r == "unknown":
            r = range_split(s, n, N, st)
        count_obligation(st, r, label)
        st.sample({"obligation": label, "guarded_elements": len(res.items), "unwinding_queries": it.n_feas})
        if r == "sat":
            nv = s.model()[n].as_long()
            f = getattr(MT if kind != "_divisors" else MF, kind)
            got = sorted(int(x) for x in getattr(f, "__wrapped__", f)(nv))
            if kind == "_factorize_imperfect":
                need = sorted({-(-nv // (-(-nv // sv))) for sv in range(1, nv + 1)})
                bad = [x for x in need if x not in got] or [x for x in got if x > nv]
                exp = need
            else:
                exp = [x for x in range(1, nv + 1) if nv % x == 0]
                bad = got != exp
            st.replays += 1
            if not bad:
                raise HarnessError(f"{kind} model does not reproduce at n={nv}: {got}")
            viol.append(dict(property=PID, function=kind, n=nv, got=got, expected=exp, what=f"{kind}({nv}) returns {got}, expected {'a superset of ' if kind == '_factorize_imperfect' else ''}{exp}"))
    elif kind == "gpfs":
        imperfect, inner = arg
        f = MT.get_possible_factor_sizes
        n = z3.Int("n")
        # perfect: the inner size divides the outer size (the property's domain); imperfect: ANY outer size
        # (a non-dividing inner tile is the normal case of imperfect factorisation)
        dom = [n >= 1, n <= N] + ([n % inner == 0] if not imperfect else [])
        solver = z3.Solver()
        solver.add(dom)
        it = I.Interp(src_of(f), {"np": I.NP, "math": I.MATH, "range": I._range}, solver)
        it.unwind_cap = N + 2
        it.int_bound = N
        it.functions = {}
        it.module_globals = vars(MT)       # _factorize is interpreted from its current source when called
        it.run({"outer_size": n, "imperfect": imperfect, "inner_size": inner})
        res = it.retval
        if not isinstance(res, I.GList):
            raise HarnessError(f"get_possible_factor_sizes: unexpected result {type(res).__name__}")
        st.encode_s += time.time() - t0
        s = z3.Solver()
        s.add(dom)
        s.add(it.side)
        if z3_check(s, st, 300000) != "sat":
            raise HarnessError(f"vacuity check of get_possible_factor_sizes N={N}")
        st.vacuity_ok += 1
        wrong = []
        if not imperfect:
            for x in range(1, N + 1):
                wrong.append(res.member(x) != z3.And(x % inner == 0, n % x == 0))
            label = f"get_possible_factor_sizes(n, False, {inner}): member(x) <=> {inner} | x and x | n, n in 1..{N} (multiples of {inner})"
        else:
            for sv in range(inner, N + 1, inner):
                t = z3.Int(f"t{sv}")
                m_ = z3.Int(f"m{sv}")
                s.add(z3.And((t - 1) * sv < n, n <= t * sv, t >= 1, t <= N, I.ceil_constraint(m_, n, t, N)))
                wrong.append(z3.And(sv <= n, z3.Not(res.member(m_))))
            for g, v in res.items:
                if I.is_sym(v):
                    wrong.append(z3.And(I.zbool(g), v > n))
            wrong.append(z3.Not(res.member(n)))
            label = (f"get_possible_factor_sizes(n, True, {inner}): for every multiple s of {inner} up to n the smallest shape with ceil(n/s) tiles is present, "
                     f"n itself is present, all members <= n, n in 1..{N} (whether or not {inner} divides n)")
        s.push()
        s.add(z3.Not(res.member(n)) if not imperfect else res.member(n + 1))      # seeded wrong expectations must differ in verdict
        rv = z3_check(s, st, 120000)
        if rv != "unsat":
            raise HarnessError(f"get_possible_factor_sizes: 'n is a member / n+1 is not' not established ({rv})")
        st.mutants_refuted += 1
        s.pop()
        s.add(z3.Or(wrong))
        r = z3_check(s, st, 400000)
        if r == "unknown":
            r = range_split(s, n, N, st)
        count_obligation(st, r, label)
        st.sample({"obligation": label, "guarded_elements": len(res.items), "unwinding_queries": it.n_feas})
        if r == "sat":
            nv = s.model()[n].as_long()
            got = [int(x) for x in getattr(f, "__wrapped__", f)(nv, imperfect, inner)]
            if not imperfect:
                exp = [x for x in range(1, nv + 1) if x % inner == 0 and nv % x == 0]
                bad = got != exp
            else:
                exp = sorted({-(-nv // (-(-nv // sv))) for sv in range(inner, nv + 1, inner)} | {nv})     # inner need not divide nv
                bad = any(x > nv for x in got) or any(x not in got for x in exp)
            st.replays += 1
            if not bad:
                raise HarnessError(f"get_possible_factor_sizes model does not reproduce at n={nv}: {got}")
            viol.append(dict(property=PID, function="get_possible_factor_sizes", n=nv, imperfect=imperfect, inner=inner, got=got, expected=exp,
                             what=f"get_possible_factor_sizes({nv}, {imperfect}, {inner}) = {got}, expected {'a superset of ' if imperfect else ''}{exp}"))
    else:
        pattern = arg
        n, it = run_symbolic("_count_factorizations", N, (pattern,))
        res = it.retval
        st.encode_s += time.time() - t0
        s = z3.Solver()
        s.add(n >= 1, n <= N)
        s.add(it.side)
        table = z3.IntVal(0)
        for x in range(1, N + 1):
            table = z3.If(n == x, brute_count(x, pattern), table)
        label = f"_count_factorizations(n, {pattern}) == brute-force chain count, n in 1..{N}"
        rv = z3_check(s, st, 300000)
        if rv != "sat":
            raise HarnessError(f"vacuity check of count {pattern} N={N}: {rv}")
        st.vacuity_ok += 1
        rz = res if I.is_sym(res) else z3.IntVal(res)
        s.add(rz != table)
        r = z3_check(s, st, 900000)
        count_obligation(st, r, label)
        st.sample({"obligation": label, "unwinding_queries": it.n_feas})
        if r == "sat":
            nv = s.model()[n].as_long()
            f = MF._count_factorizations
            got = getattr(f, "__wrapped__", f)(nv, pattern)
            st.replays += 1
            if got == brute_count(nv, pattern):
                raise HarnessError(f"_count_factorizations model does not reproduce at n={nv}, {pattern}")
            viol.append(dict(property=PID, function="_count_factorizations", n=nv, pattern=list(pattern), got=got, expected=brute_count(nv, pattern),
                             what=f"_count_factorizations({nv}, {pattern}) = {got}, brute force {brute_count(nv, pattern)}"))
    d = st.to_dict()
    d["violations"] = viol
    return d


def candidate_sweep(st, limit):
    """Validation (not the deciding step): the real get_possible_factor_sizes against brute force."""
    MT, MF = mods()
    f = MT.get_possible_factor_sizes
    f = getattr(f, "__wrapped__", f)
    out = []
    for outer in range(1, limit + 1):
        for inner in [d for d in range(1, outer + 1) if outer % d == 0]:
            got = [int(x) for x in f(outer, False, inner)]
            exp = [x for x in range(1, outer + 1) if x % inner == 0 and outer % x == 0]
            st.extra["candidate_sweep_runs"] = st.extra.get("candidate_sweep_runs", 0) + 1
            if got != exp:
                return [dict(property=PID, function="get_possible_factor_sizes", outer=outer, inner=inner, imperfect=False, got=got, expected=exp,
                             what=f"get_possible_factor_sizes({outer}, False, {inner}) = {got}, expected {exp}")]
            gi = [int(x) for x in f(outer, True, inner)]
            need = sorted({-(-outer // (-(-outer // s))) for s in range(inner, outer + 1, inner)} | {outer})
            if any(x > outer for x in gi) or any(x not in gi for x in need):
                return [dict(property=PID, function="get_possible_factor_sizes", outer=outer, inner=inner, imperfect=True, got=gi, expected=need,
                             what=f"get_possible_factor_sizes({outer}, True, {inner}) = {gi}, must contain {need} and stay <= {outer}")]
    return out


def run(args):
    t0 = time.time()
    MT, MF = mods()
    if args.replay:
        v = json.load(open(args.replay))
        print(v["what"])
        return 1
    quick = args.tier == "quick"
    N = 64 if quick else 80
    payloads = [("_factorize", N, None), ("_divisors", 48 if quick else 96, None), ("_factorize_imperfect", 36 if quick else 48, None)]
    for inner in (1, 2, 3, 4):
        payloads.append(("gpfs", 48 if quick else 64, (False, inner)))
    for inner, Nq, Nt in ((1, 24, 36), (2, 36, 48), (3, 36, 54), (4, 48, 64)):
        payloads.append(("gpfs", Nq if quick else Nt, (True, inner)))
    Lmax, Nc = (3, 10) if quick else (4, 14)
    for L in range(2, Lmax + 1):
        for pat in itertools.product([False, True], repeat=L):
            payloads.append(("count", Nc if L < 4 else 9, tuple(pat)))
    stats = Stats()
    violations = candidate_sweep(stats, 160 if quick else 600)
    res = run_sharded(shard, payloads, args.jobs)
    for r in res:
        stats.merge(r)
        violations.extend(r["violations"])
    return finish(
        PID, args.tier, "model_checking", stats, t0, violations[:5], [],
        functions_encoded=["make_tile_shapes._factorize", "make_tile_shapes._factorize_imperfect", "make_tile_shapes.get_possible_factor_sizes (incl. nested _try_admit)",
                           "_mathfuncs._divisors", "_mathfuncs._count_factorizations"],
        bounds=dict(_factorize=f"n in 1..{N}", _divisors=f"n in 1..{48 if quick else 96}", _factorize_imperfect=f"n in 1..{36 if quick else 48}",
                    _count_factorizations=f"n in 1..{Nc} (1..9 for length 4), every perfect/imperfect pattern of length 2..{Lmax}",
                    get_possible_factor_sizes="perfect: n in 1..%d, inner in 1..4; imperfect: (inner, n<=) in %s" % (48 if quick else 64, [(1, 24 if quick else 36), (2, 36 if quick else 48), (3, 36 if quick else 54), (4, 48 if quick else 64)]),
                    outside="coarseness != 1; inner sizes that do not divide the outer size; sizes beyond the bounds"),
        assumptions=["math.ceil(n**0.5) == the integer r with (r-1)^2 < n <= r^2; math.ceil(a/b) == the integer c with (c-1)*b < a <= c*b (float exactness below 2^52)",
                     "oset/sorted/np.array keep the element set (membership is what is specified)"],
        rule="one obligation per function (and per loop pattern for the counter); distinct by that",
        explanation="Source-level bounded translation of the integer kernels with a symbolic argument.",
    )


if __name__ == "__main__":
    main_wrapper(PID, run)
