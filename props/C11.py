"""C11 — the Pareto filter keeps exactly the non-dominated rows (Route C: source -> SMT).

The CURRENT source of the numba kernel `_sfs_bnl_core` (inspect.getsource of its .py_func, fetched
at every run) is executed by the guarded-merge interpreter lib/astsym over a matrix of SYMBOLIC
cells; z3 decides, for every matrix of the given shape,
        mask[i]  <=>  no row j of the same group has row_j <= row_i everywhere and < somewhere.
Cell encodings: (a) mathematical reals, (b) IEEE float32 via z3's FP theory (infinities allowed,
NaN excluded; sums_buf accumulated in float64 and rounded to float32 as the Python source says).
The numpy/pandas glue of fast_pareto_mask is not encoded (contract: group ids equal iff diff columns
equal; max = negated min; dedup keeps the first of equal rows); it is exercised by the replays, and
its float64 -> float32 cast is probed on solver-chosen values."""
from __future__ import annotations

import inspect
import os
import json
import time

import z3

from lib.common import (HarnessError, Stats, count_obligation, finish, load_known_findings,
                        main_wrapper, run_sharded, seed, z3_check)
from lib.astsym import interp as I

PID = "C11"


def kernel_source():
    import accelforge.mapper.FFM._pareto_df.fast_pareto as FP
    f = FP._sfs_bnl_core
    src = inspect.getsource(getattr(f, "py_func", f))
    return src[src.index("def _sfs_bnl_core"):]


def fp_value(m, t):
    """z3 FP model value -> python float"""
    v = m.eval(t, model_completion=True)
    if z3.is_fp_value(v) or hasattr(v, "isInf"):
        try:
            if v.isNaN():
                return float("nan")
            if v.isInf():
                return float("-inf") if v.isNegative() else float("inf")
            if v.isZero():
                return -0.0 if v.isNegative() else 0.0
        except Exception:  # noqa
            pass
        return float(eval(str(z3.simplify(z3.fpToReal(v))).replace("?", "")))
    return float(v.as_fraction())


def float32_exact_model(s, cells, st):
    """A real-valued model may not survive the cast to float32.  Ask for one whose cells are
    k * 2**e with |k| < 2**20 (exactly representable); returns a z3 model or None."""
    for e in (0, -8, -30, -60, -90, 20):
        s.push()
        ks = [z3.Int(f"k_{i}") for i in range(len(cells))]
        scale = z3.RealVal(2) ** e if e >= 0 else 1 / (z3.RealVal(2) ** (-e))
        s.add([z3.And(c == z3.ToReal(k) * scale, k > -2 ** 20, k < 2 ** 20) for c, k in zip(cells, ks)])
        r = z3_check(s, st, 120000)
        m = s.model() if r == "sat" else None
        s.pop()
        if m is not None:
            return m
    return None


def encode(n, d, mode, groups):
    """groups: list of row-index lists (partition of range(n)).  Returns (cells, mask cells, side constraints, stats)."""
    I.MODE["float"] = "fp" if mode == "fp32" else "real"
    if mode == "real":
        cells = [z3.Real(f"x{i}_{k}") for i in range(n) for k in range(d)]
        dt, NFT = "real", "real"
    else:
        cells = [z3.FP(f"x{i}_{k}", I.FP32) for i in range(n) for k in range(d)]
        dt, NFT = "fp32", "fp32"
    data = I.SArr((n, d), cells, dtype=dt)
    mask = I.SArr((n,), [False] * n, dtype="bool")
    sorted_idx = [r for g in groups for r in g]
    offsets = [0]
    for g in groups:
        offsets.append(offsets[-1] + len(g))
    solver = z3.Solver()
    if mode == "fp32":
        solver.add([z3.Not(z3.fpIsNaN(c)) for c in cells])
    it = I.Interp(kernel_source(), {"np": I.NP, "numba": I.NUMBA, "range": I._range, "NUMPY_FLOAT_TYPE": NFT}, solver)
    import accelforge.mapper.FFM._pareto_df.fast_pareto as FP
    it.module_globals = vars(FP)
    it.run({"data": data, "sorted_idx": I.SArr((n,), sorted_idx, dtype="int"), "offsets": I.SArr((len(offsets),), offsets, dtype="int"),
            "n_total_groups": len(groups), "result_mask": mask})
    return cells, mask.cells, list(it.side), it.n_feas


def spec_formula(cells, maskc, n, d, mode, groups):
    X = lambda i, k: cells[i * d + k]
    le = (lambda a, b: z3.fpLEQ(a, b)) if mode == "fp32" else (lambda a, b: a <= b)
    lt = (lambda a, b: z3.fpLT(a, b)) if mode == "fp32" else (lambda a, b: a < b)
    gid = {r: gi for gi, g in enumerate(groups) for r in g}

    def dominated(i):
        alts = [z3.And(z3.And([le(X(j, k), X(i, k)) for k in range(d)]), z3.Or([lt(X(j, k), X(i, k)) for k in range(d)]))
                for j in range(n) if j != i and gid[j] == gid[i]]
        return z3.Or(alts) if alts else z3.BoolVal(False)
    return [I.zbool(maskc[i]) != z3.Not(dominated(i)) for i in range(n)]


def brute(mat, groups):
    n, d = len(mat), len(mat[0])
    gid = {r: gi for gi, g in enumerate(groups) for r in g}
    keep = []
    for i in range(n):
        dom = any(j != i and gid[j] == gid[i] and all(mat[j][k] <= mat[i][k] for k in range(d)) and any(mat[j][k] < mat[i][k] for k in range(d))
                  for j in range(n))
        keep.append(not dom)
    return keep


def real_mask(mat, groups, dtype="float32"):
    """The compiled filter through its public entry point: group id as a 'diff' column."""
    import numpy as np
    from accelforge.mapper.FFM._pareto_df.fast_pareto import fast_pareto_mask
    gid = {r: gi for gi, g in enumerate(groups) for r in g}
    arr = np.array([[float(gid[i])] + [float(x) for x in row] for i, row in enumerate(mat)], dtype=dtype)
    goals = ["diff"] + ["min"] * len(mat[0])
    return [bool(x) for x in fast_pareto_mask(arr, goals, distinct=False)]


def classify(mat, groups):
    """known-finding key of a reproduced counterexample"""
    import math
    big = any(math.isinf(x) or abs(x) >= 1e300 for row in mat for x in row)
    if big:
        return "2col-sentinel-1e308"
    return None


def cvc5_decide(solver, cells, st, tlimit_ms):
    """Second back end for the float32 queries z3 does not finish (bit-blasted FP): the solver's
    current assertions are exported as SMT-LIB2 and decided by the cvc5 binary.  Returns
    (verdict, matrix values or None).  Any `(error` in the output is inconclusive."""
    import re as _re
    import shutil
    import struct
    import subprocess
    import tempfile
    exe = shutil.which("cvc5")
    if not exe:
        return "unknown", None
    names = [str(c) for c in cells]
    t0 = time.time()

    def ask(with_values):
        text = "(set-logic ALL)\n(set-option :produce-models true)\n" + solver.to_smt2() + ("(get-value (" + " ".join(names) + "))\n" if with_values else "")
        with tempfile.NamedTemporaryFile("w", suffix=".smt2", delete=False) as f:
            f.write(text)
            path = f.name
        try:
            return subprocess.run([exe, f"--tlimit={tlimit_ms}", path], capture_output=True, text=True, timeout=tlimit_ms / 1000 + 60).stdout
        except subprocess.TimeoutExpired:
            return "unknown"
        finally:
            os.unlink(path)
    out = ask(False)
    if out.strip().splitlines()[:1] == ["sat"] and "(error" not in out:
        out = ask(True)          # a model is only requested once the query is known to be sat
    st.queries += 1
    st.solver_s += time.time() - t0
    st.extra["cvc5_queries"] = st.extra.get("cvc5_queries", 0) + 1
    first = out.strip().splitlines()[0].strip() if out.strip() else "unknown"
    if "(error" in out or first not in ("sat", "unsat"):
        return "unknown", None
    if first == "unsat":
        return "unsat", None
    vals = {}
    for nm, sg, ex, mant in _re.findall(r"\(([^\s()]+) \(fp #b([01]) #b([01]{8}) #b([01]{23})\)\)", out):
        vals[nm] = struct.unpack(">f", int(sg + ex + mant, 2).to_bytes(4, "big"))[0]
    for nm, kind in _re.findall(r"\(([^\s()]+) \(_ ([+-]oo|[+-]zero|NaN) 8 24\)\)", out):
        vals[nm] = {"+oo": float("inf"), "-oo": float("-inf"), "+zero": 0.0, "-zero": -0.0, "NaN": float("nan")}[kind]
    if any(nm not in vals for nm in names):
        return "unknown", None
    return "sat", [vals[nm] for nm in names]


def shard(payload):
    n, d, mode, groups, exclude_big = payload
    st = Stats()
    st.instantiations = 1
    label = f"{mode} {n}x{d} groups={groups}"
    t0 = time.time()
    cells, maskc, side, nfeas = encode(n, d, mode, groups)
    st.encode_s += time.time() - t0
    st.extra["unwinding_feasibility_queries"] = nfeas
    s = z3.Solver()
    s.add(side)
    if mode == "fp32":
        s.add([z3.Not(z3.fpIsNaN(c)) for c in cells])
    if z3_check(s, st, 120000) != "sat":
        raise HarnessError(f"vacuous encoding {label}")
    st.vacuity_ok += 1
    wrong = spec_formula(cells, maskc, n, d, mode, groups)
    # seeded wrong spec: 'row 0 is always kept' must be refuted (reachability of the drop path)
    s.push()
    s.add(z3.Not(I.zbool(maskc[0])))
    if z3_check(s, st, 300000) != "sat":
        raise HarnessError(f"seeded wrong expectation not refuted {label}")
    st.mutants_refuted += 1
    s.pop()
    viol, known = [], []
    # reals: only the moderate range is meaningful (the data is float32; an unbounded real such as
    # 1e347 does not exist there).  float32: all non-NaN values first, then finite moderate ones.
    rounds = [("all values", [])] if mode == "fp32" else []
    fin = ([z3.And(z3.Not(z3.fpIsInf(c)), z3.fpLT(z3.fpAbs(c), z3.FPVal(1e30, I.FP32))) for c in cells] if mode == "fp32"
           else [z3.And(c > -10 ** 6, c < 10 ** 6) for c in cells])
    rounds.append(("finite moderate values", fin))
    for rname, extra in rounds:
        s.push()
        s.add(extra)
        s.add(z3.Or(wrong))
        tq = time.time()
        flat = None
        if mode == "fp32" and n * d >= 6:
            # z3's FP bit-blasting does not finish beyond 2x2 (unknown at 240 s); cvc5 decides 3x2 in ~30 s
            r, flat = cvc5_decide(s, cells, st, 900000)
            backend = "cvc5"
        else:
            r = z3_check(s, st, 600000)
            backend = "z3"
        count_obligation(st, r, f"{label} [{rname}]")
        st.extra.setdefault("per_obligation_s", []).append(f"{label} [{rname}]: {r} in {time.time() - tq:.1f}s ({backend})")
        if r == "sat":
            m = s.model() if flat is None else None
            if flat is not None:
                mat = [[flat[i * d + k] for k in range(d)] for i in range(n)]
            elif mode == "fp32":
                mat = [[fp_value(m, cells[i * d + k]) for k in range(d)] for i in range(n)]
            else:
                m = float32_exact_model(s, cells, st) or m
                mat = []
                for i in range(n):
                    row = []
                    for k in range(d):
                        v = m.eval(cells[i * d + k], model_completion=True)
                        row.append(float(v.as_fraction()) if z3.is_rational_value(v) else float(v.approx(10).as_fraction()))
                    mat.append(row)
            got = real_mask(mat, groups)
            exp = brute(mat, groups)
            st.replays += 1
            if got == exp:
                # float32 rounding of a real-valued model can hide it: not reproduced -> inconclusive
                st.extra.setdefault("non_reproducing_models", []).append(f"{label}: {mat}")
                s.pop()
                if mode == "real":
                    # a real-valued witness that does not survive the cast to float32 says nothing
                    st.unknown += 1
                    continue
                raise HarnessError(f"C11 model does not reproduce on the compiled filter: {label} {mat}")
            rec = dict(property=PID, matrix=mat, groups=groups, mode=mode, kept=got, expected=exp, key=classify(mat, groups),
                       what=f"fast_pareto_mask keeps {got}, non-dominated rows are {exp} for {mat} (groups {groups})")
            (known if rec["key"] else viol).append(rec)
        s.pop()
    st.sample({"instantiation": label, "kernel_source_lines": len(kernel_source().splitlines()), "unwinding_queries": nfeas})
    dd = st.to_dict()
    dd["violations"] = viol
    dd["known"] = known
    return dd


def is_constant_obligation(n, mode, st):
    """_is_constant(arr, n) is True iff all n entries are equal (it decides which objective columns
    the filter ignores)."""
    import accelforge.mapper.FFM._pareto_df.fast_pareto as FP
    f = FP._is_constant
    src = inspect.getsource(getattr(f, "py_func", f))
    src = src[src.index("def _is_constant"):]
    I.MODE["float"] = "fp" if mode == "fp32" else "real"
    cells = [z3.Real(f"a{i}") for i in range(n)] if mode == "real" else [z3.FP(f"a{i}", I.FP32) for i in range(n)]
    solver = z3.Solver()
    if mode == "fp32":
        solver.add([z3.Not(z3.fpIsNaN(c)) for c in cells])
    it = I.Interp(src, {"range": I._range}, solver)
    it.module_globals = vars(FP)
    it.run({"arr": I.SArr((n,), cells, dtype="real" if mode == "real" else "fp32"), "n": n})
    eq = (lambda a, b: z3.fpEQ(a, b)) if mode == "fp32" else (lambda a, b: a == b)
    spec = z3.And([eq(cells[0], c) for c in cells[1:]])
    s = z3.Solver()
    if mode == "fp32":
        s.add([z3.Not(z3.fpIsNaN(c)) for c in cells])
    s.add(I.zbool(it.retval) != spec)
    r = z3_check(s, st, 120000)
    count_obligation(st, r, f"_is_constant n={n} {mode}")
    if r == "sat":
        m = s.model()
        if mode == "real":
            m = float32_exact_model(s, cells, st) or m
        vals = [fp_value(m, c) if mode == "fp32" else float(m.eval(c, model_completion=True).as_fraction()) for c in cells]
        import numpy as np
        got = bool(f(np.array(vals, dtype=np.float32), n))
        exp = len(set(np.array(vals, dtype=np.float32).tolist())) == 1
        st.replays += 1
        if got == exp:
            raise HarnessError(f"_is_constant model does not reproduce: {vals}")
        return [dict(property=PID, matrix=[[v, float(i)] for i, v in enumerate(vals)], groups=[list(range(n))], mode=mode, key=None, kept=None, expected=None,
                     what=f"_is_constant({vals}) returns {got}: a column with distinct values is treated as constant (or vice versa), so the filter ignores an objective")]
    return []


def prefilled_shard(payload):
    """Second BNL block: 16 concrete mutually non-dominated rows (i, 15-i, 50) fill window slots
    0..15, then NS symbolic rows follow (assumed to have larger sums, in index order, which fixes the
    stable argsort to the identity), so window slot 16 (block 1) and the block-min bookkeeping at
    the block boundary are reached."""
    NS, = payload
    st = Stats()
    st.instantiations = 1
    NC, d = 16, 3
    n = NC + NS
    conc = [[float(i), float(15 - i), 50.0] for i in range(NC)]
    I.MODE["float"] = "real"
    cells = []
    for i in range(n):
        for k in range(d):
            cells.append(z3.RealVal(conc[i][k]) if i < NC else z3.Real(f"x{i}_{k}"))
    data = I.SArr((n, d), cells, dtype="real")
    mask = I.SArr((n,), [False] * n, dtype="bool")
    solver = z3.Solver()
    sym = [c for c in cells[NC * d:]]
    solver.add([z3.And(c >= 0, c <= 200) for c in sym])
    rowsum = lambda i: z3.Sum([cells[i * d + k] for k in range(d)])
    solver.add(rowsum(NC) > 66)
    for i in range(NC + 1, n):
        solver.add(rowsum(i) > rowsum(i - 1))

    class NPfixed(I.NP):
        def argsort(interp, a, kind=None):
            return I.SArr((a.shape[0],), list(range(a.shape[0])), dtype="int")
        argsort._needs_interp = True
        argsort = staticmethod(argsort)
    import accelforge.mapper.FFM._pareto_df.fast_pareto as FP
    t0 = time.time()
    it = I.Interp(kernel_source(), {"np": NPfixed, "numba": I.NUMBA, "range": I._range, "NUMPY_FLOAT_TYPE": "real"}, solver)
    it.module_globals = vars(FP)
    it.run({"data": data, "sorted_idx": I.SArr((n,), list(range(n)), dtype="int"), "offsets": I.SArr((2,), [0, n], dtype="int"),
            "n_total_groups": 1, "result_mask": mask})
    st.encode_s += time.time() - t0
    groups = [list(range(n))]
    s = z3.Solver()
    s.add(solver.assertions())
    s.add(it.side)
    label = f"pre-filled window: 16 concrete + {NS} symbolic rows x 3 (reals in [0,200])"
    if z3_check(s, st, 120000) != "sat":
        raise HarnessError("vacuous " + label)
    st.vacuity_ok += 1
    s.add(z3.Or(spec_formula(cells, mask.cells, n, d, "real", groups)))
    r = z3_check(s, st, 900000)
    count_obligation(st, r, label)
    st.extra.setdefault("per_obligation_s", []).append(f"{label}: {r}")
    viol = []
    if r == "sat":
        m = float32_exact_model(s, sym, st) or s.model()
        mat = [[float(m.eval(cells[i * d + k], model_completion=True).as_fraction()) for k in range(d)] for i in range(n)]
        got, exp = real_mask(mat, groups), brute(mat, groups)
        st.replays += 1
        if got == exp:
            raise HarnessError(f"pre-filled window model does not reproduce: {mat[NC:]}")
        viol.append(dict(property=PID, matrix=mat, groups=groups, mode="real", kept=got, expected=exp, key=None,
                         what=f"fast_pareto_mask keeps {got}, non-dominated rows are {exp} for 16 antichain rows (i,15-i,50) followed by {mat[NC:]}"))
    dd = st.to_dict()
    dd["violations"] = viol
    dd["known"] = []
    return dd


# ---------------------------------------------------------------------------------------------
# glue: goal vector -> comparison semantics (solver-generated distinguishing inputs)
# ---------------------------------------------------------------------------------------------
PRIMES = (2, 3, 5, 7, 11)
GOALS = ("min", "max", "diff", "min_per_prime_factor", "max_per_prime_factor")


def _expo(x, p):
    e = 0
    while x % p == 0:
        x //= p
        e += 1
    return e


def goal_spec_py(mat, goals, distinct=True):
    """brute-force semantics of the goal vector on an integer matrix"""
    n = len(mat)

    def comps(row):
        out = []
        for v, g in zip(row, goals):
            if g == "min":
                out.append(v)
            elif g == "max":
                out.append(-v)
            elif g == "min_per_prime_factor":
                out += [_expo(v, p) for p in PRIMES]
            elif g == "max_per_prime_factor":
                out += [-_expo(v, p) for p in PRIMES]
        return out
    key = lambda row: tuple(v for v, g in zip(row, goals) if g == "diff")
    C = [comps(r) for r in mat]
    keep = []
    for i in range(n):
        dom = any(j != i and key(mat[j]) == key(mat[i]) and all(a <= b for a, b in zip(C[j], C[i])) and any(a < b for a, b in zip(C[j], C[i])) for j in range(n))
        keep.append(not dom)
    if distinct:
        seen = set()
        for i in range(n):
            if keep[i]:
                t = tuple(mat[i])
                if t in seen:
                    keep[i] = False
                seen.add(t)
    return keep


def goal_spec_z3(cells, n, goals):
    def ex(v, p):
        r = z3.IntVal(0)
        for x in range(1, 13):
            r = z3.If(v == x, _expo(x, p), r)
        return r

    def comps(i):
        out = []
        for k, g in enumerate(goals):
            v = cells[i][k]
            if g == "min":
                out.append(v)
            elif g == "max":
                out.append(-v)
            elif g == "min_per_prime_factor":
                out += [ex(v, p) for p in PRIMES]
            elif g == "max_per_prime_factor":
                out += [-ex(v, p) for p in PRIMES]
        return out
    C = [comps(i) for i in range(n)]
    same = lambda i, j: z3.And([cells[i][k] == cells[j][k] for k, g in enumerate(goals) if g == "diff"] or [z3.BoolVal(True)])
    keep = []
    for i in range(n):
        doms = [z3.And(same(i, j), z3.And([a <= b for a, b in zip(C[j], C[i])]), z3.Or([a < b for a, b in zip(C[j], C[i])] or [z3.BoolVal(False)])) for j in range(n) if j != i]
        keep.append(z3.Not(z3.Or(doms)))
    return keep


def glue_probe(st, tier):
    """The numpy glue (goal signs, prime-factor expansion, group encoding, dedup) is not encoded.
    z3 generates, for each goal vector g and each single-position variation g', an integer matrix on
    which the two specifications disagree; the real fast_pareto_mask(M, g) is run on it and compared
    with the brute-force semantics of g.  (Test generation by the solver; the deciding step of each
    run is concrete.)"""
    import itertools
    import numpy as np
    from accelforge.mapper.FFM._pareto_df.fast_pareto import fast_pareto_mask
    out = []
    n = 4
    vecs = [v for L in (2, 3) for v in itertools.product(GOALS, repeat=L) if any(g != "diff" for g in v)]
    if tier == "quick":
        vecs = [v for v in vecs if len(v) == 2] + [v for i, v in enumerate(vecs) if len(v) == 3 and i % 5 == 0]
    for g in vecs:
        k = len(g)
        cells = [[z3.Int(f"m{i}_{j}") for j in range(k)] for i in range(n)]
        base = [z3.And(c >= 1, c <= 12) for row in cells for c in row]
        sg = goal_spec_z3(cells, n, g)
        for pos in range(k):
            for alt in GOALS:
                if alt == g[pos]:
                    continue
                g2 = tuple(alt if j == pos else x for j, x in enumerate(g))
                if not any(x != "diff" for x in g2):
                    continue
                s = z3.Solver()
                s.add(base)
                s2 = goal_spec_z3(cells, n, g2)
                s.add(z3.Or([a != b for a, b in zip(sg, s2)]))
                r = z3_check(s, st, 20000)
                if r != "sat":
                    continue
                m = s.model()
                mat = [[m.eval(c, model_completion=True).as_long() for c in row] for row in cells]
                got = [bool(x) for x in fast_pareto_mask(np.array(mat, dtype=np.float32), list(g), distinct=True)]
                exp = goal_spec_py(mat, g, distinct=True)
                st.extra["glue_distinguishing_inputs"] = st.extra.get("glue_distinguishing_inputs", 0) + 1
                if got != exp:
                    out.append(dict(property=PID, matrix=mat, groups=None, goals=list(g), mode="glue", kept=got, expected=exp, key=None,
                                    what=f"fast_pareto_mask({mat}, goals={list(g)}) keeps {got}, the goal semantics give {exp}"))
                    return out
    return out


def cast_probe(st):
    """float64 input: the glue casts to float32 before comparing.  z3 picks two distinct float64
    values with the same float32 rounding; the real filter runs on float64 matrices built from them."""
    out = []
    x, y = z3.FP("x", I.FP64), z3.FP("y", I.FP64)
    s = z3.Solver()
    s.add(z3.fpLT(x, y), z3.fpGT(x, z3.FPVal(1.0, I.FP64)), z3.fpLT(y, z3.FPVal(1000.0, I.FP64)),
          z3.fpEQ(z3.fpFPToFP(I.RNE, x, I.FP32), z3.fpFPToFP(I.RNE, y, I.FP32)))
    if z3_check(s, st, 120000) != "sat":
        raise HarnessError("cast probe: no witness")
    xv, yv = fp_value(s.model(), x), fp_value(s.model(), y)
    # row0 = (y, 5), row1 = (x, 5): row1 strictly dominates row0 in float64
    mat = [[yv, 5.0], [xv, 5.0], [0.5, 9.0]]
    got = real_mask(mat, [[0, 1, 2]], dtype="float64")
    exp = brute(mat, [[0, 1, 2]])
    count_obligation(st, "unsat" if got == exp else "sat", "float64 cast probe")
    st.queries += 1
    if got != exp:
        out.append(dict(property=PID, matrix=mat, groups=[[0, 1, 2]], mode="float64", kept=got, expected=exp, key="float64-cast-to-float32",
                        what=f"float64 input: fast_pareto_mask keeps {got}, non-dominated rows are {exp} for {mat} (values collide after the cast to float32)"))
    return out


def sum_tie_probe(st):
    """The general path sorts rows by the float32-rounded SUM of their columns and admits them in
    that order.  z3 (FP theory) picks a large x and small y1 > y2 > 0 whose row sums round to the
    same float32, so the dominated row (x, y1, y1) placed FIRST is admitted before its dominator
    (x, y2, y2); the compiled filter is then run on that matrix."""
    out = []
    x, y1, y2 = z3.FP("x", I.FP32), z3.FP("y1", I.FP32), z3.FP("y2", I.FP32)
    s = z3.Solver()
    def rsum(a, b):      # float64 accumulation, rounded to float32 when stored (as the kernel's source does)
        acc = z3.fpAdd(I.RNE, z3.fpAdd(I.RNE, z3.fpAdd(I.RNE, z3.FPVal(0.0, I.FP64), I.fp_to(a, I.FP64)), I.fp_to(b, I.FP64)), I.fp_to(b, I.FP64))
        return I.fp_to(acc, I.FP32)
    s.add(z3.fpGT(x, z3.FPVal(1000.0, I.FP32)), z3.fpLT(x, z3.FPVal(1e12, I.FP32)), z3.fpGT(y2, z3.FPVal(0.5, I.FP32)), z3.fpGT(y1, y2),
          z3.fpLT(y1, z3.FPVal(64.0, I.FP32)), z3.fpEQ(rsum(x, y1), rsum(x, y2)))
    if z3_check(s, st, 120000) != "sat":
        st.extra["sum_tie_probe"] = "no witness"
        return out
    m = s.model()
    xv, a, b = fp_value(m, x), fp_value(m, y1), fp_value(m, y2)
    mat = [[xv, a, a], [xv, b, b], [0.0, 100.0, 100.0]]
    got = real_mask(mat, [[0, 1, 2]])
    exp = brute(mat, [[0, 1, 2]])
    count_obligation(st, "unsat" if got == exp else "sat", "float32 sum-tie probe")
    st.queries += 1
    if got != exp:
        out.append(dict(property=PID, matrix=mat, groups=[[0, 1, 2]], mode="fp32", kept=got, expected=exp, key="float32-sum-tie",
                        what=f"fast_pareto_mask keeps {got}, non-dominated rows are {exp} for {mat} (row sums tie in float32, the dominated row comes first)"))
    return out


def run(args):
    t0 = time.time()
    if args.replay:
        v = json.load(open(args.replay))
        if v.get("mode") == "glue":
            import numpy as np
            from accelforge.mapper.FFM._pareto_df.fast_pareto import fast_pareto_mask
            got = [bool(x) for x in fast_pareto_mask(np.array(v["matrix"], dtype=np.float32), v["goals"], distinct=True)]
            exp = goal_spec_py(v["matrix"], v["goals"])
            print("kept", got, "goal semantics", exp)
            return 0 if got == exp else 1
        mat = [[float(x) for x in row] for row in v["matrix"]]
        got = real_mask(mat, v["groups"], dtype="float64" if v["mode"] == "float64" else "float32")
        exp = brute(mat, v["groups"])
        print("kept", got, "non-dominated", exp)
        return 0 if got == exp else 1
    if args.tier == "quick":
        shapes = [(3, 2, "real", [[0, 1, 2]]), (3, 3, "real", [[0, 1, 2]]), (4, 2, "real", [[0, 1, 2, 3]]), (4, 3, "real", [[0, 1, 2, 3]]),
                  (4, 3, "real", [[0, 2], [1, 3]]), (3, 4, "real", [[0, 1, 2]]), (2, 2, "fp32", [[0, 1]]), (3, 2, "fp32", [[0, 1, 2]])]
    else:
        shapes = [(3, 2, "real", [[0, 1, 2]]), (3, 3, "real", [[0, 1, 2]]), (4, 2, "real", [[0, 1, 2, 3]]), (4, 3, "real", [[0, 1, 2, 3]]),
                  (4, 4, "real", [[0, 1, 2, 3]]), (5, 3, "real", [[0, 1, 2, 3, 4]]), (5, 2, "real", [[0, 1, 2, 3, 4]]), (4, 3, "real", [[0, 2], [1, 3]]),
                  (6, 3, "real", [[0, 2, 4], [1, 3, 5]]), (6, 2, "real", [[0, 1, 2, 3, 4, 5]]), (3, 4, "real", [[0, 1, 2]]),
                  (2, 2, "fp32", [[0, 1]]), (3, 2, "fp32", [[0, 1, 2]])]      # float32 beyond 3x2: neither z3 nor cvc5 finishes (3x3: > 15 min)
    stats = Stats()
    violations = []
    known_recs = cast_probe(stats) + sum_tie_probe(stats)
    violations.extend(glue_probe(stats, args.tier))
    for n_, mode_ in ((3, "real"), (4, "real"), (3, "fp32")):
        violations.extend(is_constant_obligation(n_, mode_, stats))
    res = run_sharded(shard, [(n, d, mode, g, True) for n, d, mode, g in shapes], args.jobs)
    res += run_sharded(prefilled_shard, [(2,)] if args.tier == "quick" else [(2,), (3,)], args.jobs)
    for r in res:
        stats.merge(r)
        violations.extend(r["violations"])
        known_recs.extend(r["known"])
    kf = load_known_findings(PID)
    known = []
    for rec in known_recs:
        hit = [k for k in kf if k.get("key") == rec["key"]]
        if hit:
            known.append(f"{hit[0]['what_fails']} [e.g. {rec['what'][:140]}]")
        else:
            violations.append(rec)
    return finish(
        PID, args.tier, "model_checking", stats, t0, violations[:5], known,
        functions_encoded=["fast_pareto._is_constant", "fast_pareto._sfs_bnl_core (source fetched with inspect.getsource at run time; all four paths: d==1, one varying column, two varying columns, SFS + block BNL)"],
        bounds=dict(shapes=[f"{n}x{d} {mode} groups={g}" for n, d, mode, g in shapes], unwinding="loops unrolled until the solver proves no further iteration reachable (cap 64)",
                    values="reals: unbounded and |x|<1e6; float32: all non-NaN incl. +-inf, and finite |x|<1e30",
                    prefilled_window="16 concrete antichain rows + 2 (quick) / 3 (thorough) symbolic rows x 3 columns: second BNL block reached",
                    outside="numba fastmath code generation (replays run the compiled function), NaN, > 6 symbolic rows, groups of unequal size (the interpreter cannot merge arrays of different shapes), float32 beyond 3x2, third and later BNL blocks, "
                            "the numpy/pandas glue of fast_pareto_mask (group encoding, goal signs, prime-factor expansion, dedup) apart from the replays and the cast probe"),
        assumptions=["np.argsort(kind='mergesort') modelled as the (unique) stable sorting permutation",
                     "groups are given as a concrete partition (the contract of _encode_groups/_counting_sort)",
                     "a real-valued counterexample that disappears after the cast to float32 is counted as inconclusive, not as a violation"],
        rule="one obligation per (shape, cell encoding, value range); distinct by that triple",
        explanation="CBMC-style encoding of the kernel's Python source; the negated specification must be unsat.",
    )


if __name__ == "__main__":
    main_wrapper(PID, run)
