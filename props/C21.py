"""C21 — spec expressions evaluate in dependency order; cycles raise (Route B, CrossHair).

CrossHair executes the real _get_parsable_field_order over ALL dependency graphs on N definitions
(symbolic Boolean matrix behind a stub of `re`) and all key orders (symbolic permutation):
an EvaluationError iff the graph has a cycle; otherwise the returned order is a permutation of the
fields that puts every dependency first.  N = 3 (quick), N = 4 sharded by the first matrix row
(thorough).  Counterexamples are replayed with real expression strings through
Spec._spec_eval_expressions (real regex, real eval), which also validates the stub's contract; the
same public path is used for a scoping probe (component attribute > arch variable > spec variable)."""
from __future__ import annotations

import itertools
import json
import os
import time

from lib.common import (VERIF, HarnessError, Stats, finish, main_wrapper)
from lib.xh.driver import parse_call, run_harness

PID = "C21"
HARNESS = os.path.join(VERIF, "lib", "xh", "c21_harness.py")


def has_cycle(dep):
    n = len(dep)
    removed = [False] * n
    for _ in range(n):
        for j in range(n):
            if not removed[j] and all(removed[i] or not dep[j][i] or i == j for i in range(n)):
                removed[j] = True
    return not all(removed)


def replay(dep, perm):
    """Real strings through the public API.  Returns None if the property holds, else a message."""
    from accelforge.frontend.spec import Spec
    from accelforge.util._eval_expressions import EvaluationError
    n = len(dep)
    consts = [3, 5, 7, 11, 13]
    exprs = {}
    for j in range(n):
        deps = [f"f{i}" for i in range(n) if i != j and dep[j][i]]
        exprs[f"f{j}"] = " + ".join(deps + [str(consts[j])])
    variables = {f"f{j}": exprs[f"f{j}"] for j in perm}
    cyc = has_cycle(dep)
    try:
        ev = Spec(variables=variables)._spec_eval_expressions()
    except EvaluationError as e:
        return None if cyc else f"acyclic definitions {variables} raised EvaluationError: {str(e)[:120]}"
    if cyc:
        return f"cyclic definitions {variables} evaluated to {dict(ev.variables)} instead of raising"
    # expected values by memoised recursion
    val = {}

    def value(j):
        if j not in val:
            val[j] = consts[j] + sum(value(i) for i in range(n) if i != j and dep[j][i])
        return val[j]
    exp = {f"f{j}": value(j) for j in range(n)}
    got = {k: v for k, v in dict(ev.variables).items() if k in exp}
    return None if got == exp else f"definitions {variables} evaluated to {got}, expected {exp}"


def scoping_probe(st):
    """Names in the current object shadow outer objects, which shadow spec-level variables
    (concrete, public API; CrossHair realises values inside eval(), so this clause is a probe)."""
    from accelforge.frontend.arch import Arch, Compute, Memory
    from accelforge.frontend.spec import Spec
    from accelforge.frontend.workload import Workload
    out = []
    wl = Workload(rank_sizes={"M": 2}, bits_per_value={"All": 8},
                  einsums=[dict(name="E", tensor_accesses=[dict(name="A", projection=["m"]), dict(name="B", projection=["m"], output=True)])])
    for spec_v, arch_v in ((2, 5), (2, None), (2, 0), (0, 3), (7, 1)):
        expect = (arch_v if arch_v is not None else spec_v) * 10 + 7
        arch = Arch(nodes=[Memory(name="Main", size="x * 10 + 7", area=0, leak_power=0, tensors={"keep": "All"},
                                  actions=[{"name": "read", "energy": 1, "throughput": 1}, {"name": "write", "energy": 1, "throughput": 1}]),
                           Compute(name="MAC", area=0, leak_power=0, actions=[{"name": "compute", "energy": 1, "throughput": 1}])],
                    **({"variables": {"x": arch_v}} if arch_v is not None else {}))
        s = Spec(arch=arch, workload=wl, variables={"x": spec_v})._spec_eval_expressions(einsum_name="E")
        got = s.arch.find("Main").size
        st.extra["scoping_probes"] = st.extra.get("scoping_probes", 0) + 1
        if got != expect:
            out.append(dict(property=PID, kind="scoping", spec_x=spec_v, arch_x=arch_v, got=got, expected=expect,
                            what=f"scoping: Main.size = 'x * 10 + 7' with spec x={spec_v}, arch x={arch_v} evaluates to {got}, expected {expect}"))
    return out


def stub_contract_sweep(st):
    """Validates the stub's contract against the real `re` use: for names of which one is a word-
    prefix of another (v1 / v10 / v2) and every dependency graph on them, the public API must behave
    as the graph says (cycle -> EvaluationError, otherwise the right values).  Concrete, exhaustive
    for 3 names; not the deciding step."""
    from accelforge.frontend.spec import Spec
    from accelforge.util._eval_expressions import EvaluationError
    names = ["v1", "v10", "v2"]
    consts = [3, 5, 7]
    out = []
    for bits in itertools.product([False, True], repeat=6):
        dep = [[False] * 3 for _ in range(3)]
        k = 0
        for j in range(3):
            for i in range(3):
                if i != j:
                    dep[j][i] = bits[k]
                    k += 1
        for perm in ((0, 1, 2), (2, 1, 0), (1, 0, 2)):
            variables = {names[j]: " + ".join([names[i] for i in range(3) if i != j and dep[j][i]] + [str(consts[j])]) for j in perm}
            cyc = has_cycle(dep)
            st.extra["stub_contract_runs"] = st.extra.get("stub_contract_runs", 0) + 1
            try:
                ev = Spec(variables=variables)._spec_eval_expressions()
                got = {k_: v for k_, v in dict(ev.variables).items() if k_ in names}
                err = None
            except EvaluationError as e:
                got, err = None, str(e)[:80]
            val = {}

            def value(j):
                if j not in val:
                    val[j] = consts[j] + sum(value(i) for i in range(3) if i != j and dep[j][i])
                return val[j]
            if cyc:
                bad = err is None
            else:
                bad = err is not None or got != {names[j]: value(j) for j in range(3)}
            if bad:
                out.append(dict(property=PID, kind="names", variables=variables, got=got, error=err, cyclic=cyc,
                                what=f"definitions {variables} ({'cyclic' if cyc else 'acyclic'}): got {got if err is None else 'EvaluationError: ' + err}"))
                return out
    return out


def run(args):
    t0 = time.time()
    if args.replay:
        v = json.load(open(args.replay))
        if v.get("kind") == "names":
            from accelforge.frontend.spec import Spec
            from accelforge.util._eval_expressions import EvaluationError
            try:
                print(dict(Spec(variables=v["variables"])._spec_eval_expressions().variables))
            except EvaluationError as e:
                print("EvaluationError", str(e)[:100])
            return 1
        if v.get("kind") == "scoping":
            print(v["what"])
            return 1
        r = replay(v["dep"], v["perm"])
        print(r or "holds")
        return 1 if r else 0
    stats = Stats()
    violations = scoping_probe(stats) + stub_contract_sweep(stats)
    perms3 = ["".join(map(str, p)) for p in itertools.permutations(range(3))]
    if args.tier == "quick":
        shards = [(3, "", p, 600) for p in perms3]
    else:
        shards = [(3, "", p, 900) for p in perms3] + [(4, "".join(b), p, 3000) for b in itertools.product("01", repeat=4) if b[0] == "0"
                                                      for p in ("0123", "3210", "2031")]
    results = []
    from concurrent.futures import ThreadPoolExecutor
    with ThreadPoolExecutor(max_workers=min(len(shards), max(1, args.jobs // 2))) as ex:
        futs = []
        for n, row0, perm, timeout in shards:
            funcs = ["order_respects_dependencies"] + (["order_respects_dependencies_twin"] if (not row0 and perm == perms3[0]) else [])
            futs.append((n, row0, perm, ex.submit(run_harness, HARNESS, funcs, timeout, {"C21_N": str(n), "C21_ROW0": row0, "C21_PERM": perm}, 2)))
        for n, row0, perm, f in futs:
            for r in f.result():
                r["N"], r["row0"], r["perm"] = n, row0, perm
                results.append(r)
    for r in results:
        stats.queries += 1
        stats.solver_s += r["seconds"]
        stats.nontrivial.add(hash((r["function"], r["N"], r["row0"], r["perm"])) & 0xFFFFFFFFFFFF)
        if r["function"].endswith("_twin"):
            if r["status"] != "refuted":
                raise HarnessError(f"reachability twin not refuted: {r}")
            stats.vacuity_ok += 1
            continue
        stats.obligations += 1
        stats.sample({k: r[k] for k in ("function", "N", "row0", "perm", "status", "seconds")}, cap=12)
        if r["status"] == "confirmed":
            stats.unsat += 1
        elif r["status"] == "refuted":
            stats.sat += 1
            call = parse_call(r["detail"], r["function"])
            if not call or len(call) != 1:
                raise HarnessError(f"cannot parse counterexample {r['detail']}")
            dep, perm = [list(map(bool, row)) for row in call[0]], [int(c) for c in r["perm"]]
            msg = replay(dep, perm)
            stats.replays += 1
            if msg is None and has_cycle(dep):
                # a cyclic graph for which the ordering function did not raise still ends in an
                # EvaluationError through the public API (an undefined name); look for an ACYCLIC
                # counterexample of the same shard instead
                r2 = run_harness(HARNESS, ["order_respects_dependencies_acyclic"], 900,
                                 {"C21_N": str(r["N"]), "C21_ROW0": r["row0"], "C21_PERM": r["perm"]}, 1)[0]
                stats.queries += 1
                if r2["status"] == "refuted":
                    call = parse_call(r2["detail"], "order_respects_dependencies_acyclic")
                    dep = [list(map(bool, row)) for row in call[0]]
                    msg = replay(dep, perm)
                    stats.replays += 1
                    r = dict(r, detail=r2["detail"])
                elif r2["status"] == "confirmed":
                    stats.extra.setdefault("function_level_only", []).append(
                        f"cyclic graph {dep} (keys {perm}) is ordered without raising, but the public API still raises an EvaluationError")
                    continue
            if msg is None:
                raise HarnessError(f"CrossHair counterexample does not reproduce through Spec._spec_eval_expressions: {r['detail']}")
            violations.append(dict(property=PID, dep=dep, perm=perm, crosshair=r["detail"], what=msg))
        else:
            stats.unknown += 1
            stats.extra.setdefault("inconclusive", []).append(r)
    stats.instantiations = len(shards)
    stats.extra["conditions"] = [{k: r[k] for k in ("function", "N", "row0", "perm", "status", "seconds")} for r in results]
    return finish(
        PID, args.tier, "model_checking", stats, t0, violations[:5], [],
        functions_encoded=["accelforge.util._basetypes._get_parsable_field_order"],
        bounds=dict(definitions="3 (quick); 3 and 4 (thorough, N=4 sharded by the first row of the dependency matrix)",
                    graphs="every directed graph on N nodes (symbolic Boolean matrix)", key_orders="N=3: all 6 permutations (one shard each); N=4: identity, reverse and one mixed order",
                    outside="more than 4 definitions; names that are word-prefixes of each other; non-EvalsTo fields and the `order` prefix; "
                            "scoping is a concrete probe (2 configurations)"),
        assumptions=["re.findall(r'\\bname\\b', expr) is non-empty iff expr mentions name (validated by replays on real strings)",
                     "only 'Confirmed over all paths' counts"],
        rule="one CrossHair condition per (N, shard); distinct by that pair",
        explanation="CrossHair over all dependency graphs and key orders of the real ordering function.",
    )


if __name__ == "__main__":
    main_wrapper(PID, run)
