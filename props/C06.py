"""C06 — reported memory usage = execution-time peak occupancy (Route A; single-Einsum part).

The real run_model runs on symbols; for every memory M z3 compares
    usage<SEP>memory<SEP>M * size_M     (bits)
with the peak over (guarded) time steps of the bits held by M's holders under ELEMENT LIVENESS
(lib/symx/refexec.py:liveness_z3):
  (i)   reported >= element-liveness peak          all skeletons, trip counts 1..K  (never under-reports,
                                                   so the capacity rejection is sound)
  (ii)  reported <= sum of the holders' whole tiles all skeletons, trip counts 1..K  (never worse than no streaming)
  (iii) reported == element-liveness peak          unobstructed skeletons, trip counts 3..K
The model adds up per-holder peaks (the sub-tile below the point a reservation is lowered to).  That
equals the peak of the sum when every loop has a middle iteration (>= 3 trips) and no other holder
stands between a holder and the relevant loops it streams through; with 1-2 trips or an interposed
holder the model is conservative (measured, see DESIGN.md section 4/C06), which (i)/(ii) bracket.
Also: max of the reservation columns == the usage, persistent tensors scale with n_instances, and
(concretely, through the public API) a mapping is rejected iff its peak exceeds the size."""
from __future__ import annotations

import json
import random
import time

import sympy
import z3

from lib.common import (split_check, HarnessError, Stats, count_obligation, finish, load_known_findings,
                        main_wrapper, run_sharded, seed, z3_check)
from lib.symx import model as M
from lib.symx.refexec import holders_by_memory, liveness_concrete, liveness_z3
from lib.symx.tr import Tr, model_value
from props import C05

PID = "C06"
SEP = "<SEP>"


def make_instantiations(tier):
    rng = random.Random(seed() + 606)
    fam = [("A2", "MM", 16), ("A2", "MV", 8), ("A3", "MM", 8), ("A3", "MV", 6)] if tier == "quick" else \
          [("A2", "MM", 80), ("A2", "MV", 30), ("A3", "MM", 60), ("A3", "MV", 30), ("A2T", "MM", 20)]
    out = []
    for arch, wl, n in fam:
        ename, tensors, outs, rvs = M.WORKLOADS[wl]
        sks = [sk for sk in M.gen_skeletons(arch, wl, 6 * n, seed() + 3, nomain_prob=0.3) if len(M.loops_of(sk)) <= (4 if tier == "quick" else 5)][:n]
        for si, sk in enumerate(sks):
            opts = {}
            if si % 3 == 2:
                opts["persistent"] = [rng.choice(list(tensors))]
            out.append((arch, wl, sk, opts, {}))
    return out


def unobstructed(sk, arch, wl, mem):
    """True iff for every non-backing holder of `mem` no other holder lies between it and a relevant
    loop it could stream through (i.e. before its first irrelevant loop)."""
    ename, tensors, outs, rvs = M.WORKLOADS[wl]
    for pos, t, backing in holders_by_memory(sk, arch, wl)[mem]:
        if backing:
            continue
        trv = {v for d in tensors[t] for v in d}
        seen_holder = False
        for it in sk[pos + 1:]:
            if it[0] == "S":
                seen_holder = True
            elif it[1] not in trv:
                break
            elif seen_holder:
                return False
    return True


def check_instance(payload, K, st: Stats):
    arch, wl, sk, opts, vpa = payload
    label = f"{arch}/{wl} {M.sk_str(sk)} persistent={opts.get('persistent', [])}"
    t0 = time.time()
    Nw = sympy.Symbol("N_workload", positive=True, integer=True)
    Ne = sympy.Symbol("N_einsum", positive=True, integer=True)
    run = M.symbolic_run(arch, wl, sk, opts, vpa, inst=(Nw, Ne))
    if run.error:
        st.extra.setdefault("symbolic_execution_failed", []).append(f"{label}: {run.error[:200]}")
        return []
    st.instantiations += 1
    subs, nsym = M.substitution(sk, run)
    ename, tensors, outs, rvs = M.WORKLOADS[wl]
    tr = Tr()
    nvar = {i: z3.Int(s.name) for i, s in nsym.items()}
    for i, s in nsym.items():
        tr.env[s.name] = nvar[i]
    ninst = z3.Int("N_workload") * z3.Int("N_einsum")
    tr.env["N_workload"], tr.env["N_einsum"] = z3.Int("N_workload"), z3.Int("N_einsum")
    live = liveness_z3(sk, arch, wl, nvar, K, persistent=opts.get("persistent", ()), n_inst=ninst)
    hb = holders_by_memory(sk, arch, wl)
    whole_tiles = {}
    for mem, hs in hb.items():
        acc = {}
        for pos, t, backing in hs:
            v = z3.IntVal(1)
            for dd in tensors[t]:
                for j in M.loops_of(sk):
                    if j > pos and sk[j][1] == dd[0]:
                        v = v * nvar[j]
            if backing and t in opts.get("persistent", ()):
                v = v * ninst
            acc[t] = acc[t] + v if t in acc else v
        whole_tiles[mem] = acc
    viol = []
    s = z3.Solver()
    s.add([z3.And(v >= 1, v <= K) for v in nvar.values()])
    s.add(tr.env["N_workload"] >= 1, tr.env["N_einsum"] >= 1, tr.env["N_workload"] <= 4, tr.env["N_einsum"] <= 4)
    cols = {**run.df, **run.usage}
    obligations = []
    for mem in hb:
        col = f"usage{SEP}memory{SEP}{mem}"
        if col not in cols:
            raise HarnessError(f"{label}: no column {col}")
        size = sympy.Symbol(f"size_{mem}", positive=True)
        U = tr(sympy.cancel(sympy.expand(M.apply_subs(cols[col], subs) * size)))
        bpv = {t: tr.var(sympy.Symbol(f"bpv_{mem}_{t}", positive=True)) for t in tensors}
        S = []
        for g, occ in live[mem]:
            S.append((g, z3.Sum([z3.ToReal(v) * bpv[t] for t, v in occ.items()])))
        under = z3.Or([z3.And(g, U < x) for g, x in S])
        never_attained = z3.And([z3.Or(z3.Not(g), U != x) for g, x in S])
        # one query per time step (the disjunction over time steps as a single query is 100x slower)
        obligations.append((f"usage[{mem}]*size >= peak of live bits (trip counts 1..{K})", [[z3.And(g, U < x)] for g, x in S], None))
        whole = z3.Sum([z3.ToReal(v) * bpv[t] for t, v in whole_tiles[mem].items()])
        obligations.append((f"usage[{mem}]*size <= sum of whole tiles (trip counts 1..{K})", [U > whole], None))
        if unobstructed(sk, arch, wl, mem):
            obligations.append((f"usage[{mem}]*size is attained at some time step (trip counts 3..{K})", [never_attained], 3))
        # reservation columns: the largest equals the usage, none exceeds it
        rcols = sorted((c for c in cols if c.startswith(f"reservation{SEP}{mem}{SEP}")), key=lambda c: int(c.split(SEP)[2]))
        if rcols:
            Ulast = tr(sympy.cancel(sympy.expand(M.apply_subs(cols[rcols[-1]], subs) * size)))
            obligations.append((f"last reservation column of {mem} == usage", [Ulast != U], None))
            for c in rcols[:-1]:
                Uc = tr(sympy.cancel(sympy.expand(M.apply_subs(cols[c], subs) * size)))
                obligations.append((f"{c} <= usage", [Uc > U], None))
    s.add([v > 0 for n, v in tr.env.items() if not (n.startswith("n") or n.startswith("N_"))])
    s.add(tr.constraints())
    st.encode_s += time.time() - t0
    if z3_check(s, st, 60000) != "sat":
        raise HarnessError("vacuous")
    st.vacuity_ok += 1
    for d, neg, lo in obligations:
        s.push()
        if lo:
            s.add([v >= lo for v in nvar.values()])
        if neg and isinstance(neg[0], list):
            r = "unsat"
            for part in neg:
                s.push()
                s.add(part)
                rp = z3_check(s, st, 120000)
                if rp == "sat":
                    r = "sat"
                    m_keep = s.model()
                    s.pop()
                    break
                if rp != "unsat":
                    r = "unknown"
                s.pop()
            if r == "sat":
                s.add(part)
                s.check()
        else:
            s.add(neg)
            r = z3_check(s, st, 30000)
            m_split = None
            if r == "unknown":
                r, fix, m_split = split_check(s, list(nvar.values()), lo or 1, K, st)
                if r == "sat":
                    s.add(fix)
        count_obligation(st, r, label + " " + d)
        if r == "sat":
            # prefer a witness with small integer bits-per-value (reported and peak bits are then
            # integers, so the concrete replay is not at the mercy of float tolerances)
            ints = []
            for n_, v_ in tr.env.items():
                if n_.startswith("bpv_"):
                    iv = z3.Int("int_" + n_)
                    ints += [v_ == z3.ToReal(iv), iv >= 1, iv <= 16]
            s.push()
            s.add(ints)
            if z3_check(s, st, 120000) == "sat":
                m = s.model()
                s.pop()
            elif m_split is not None:
                s.pop()
                m = m_split
            else:
                s.pop()
                if z3_check(s, st, 120000) != "sat":
                    raise HarnessError(f"{label}: no model for a sat obligation")
                m = s.model()
            trips = {i: int(model_value(m, v)) for i, v in nvar.items()}
            vals = {n: model_value(m, v) for n, v in tr.env.items() if not n.startswith("n")}
            viol.append((d, trips, vals))
        s.pop()
    # seeded wrong reference: "every holder keeps its whole tile" must be refuted when some holder streams
    st.sample({"instantiation": label, "obligation": obligations[1][0], "time_steps": len(live[next(iter(hb))])})
    out = []
    for d, trips, vals in viol[:2]:
        out.append(replay(payload, d, trips, vals, st))
    if not out:
        out = validate_concrete(payload, K, st)
    return [v for v in out if v]


def concrete_usage(payload, trips, bpvs=None, sizes=None, n_inst=(1, 1)):
    """Public API on numbers.  Returns ({memory: usage fraction}, error or None)."""
    arch, wl, sk, opts, vpa = payload
    from accelforge.util.parallel import set_n_parallel_jobs
    set_n_parallel_jobs(1)
    L = M.loops_of(sk)
    ename, tensors, outs, rvs = M.WORKLOADS[wl]
    bounds = {rv: 1 for rv in rvs}
    tile = {}
    for rv in rvs:
        prod = 1
        for i in reversed([i for i in L if sk[i][1] == rv]):
            tile[i] = prod
            prod *= trips[i]
        bounds[rv] = prod
    spec = M.build_spec(arch, wl, sk, opts, bounds=bounds, tile_shapes=tile,
                        wl_opts=dict(n_instances=n_inst[0], einsum_n_instances=n_inst[1]))
    from accelforge.frontend import arch as A
    for c in spec.arch.get_nodes_of_type(A.Memory):
        c.bits_per_value = {t: (bpvs or {}).get((c.name, t), 8) for t in tensors}
        c.size = (sizes or {}).get(c.name, 10 ** 12)
    try:
        res = spec.evaluate_mapping()
    except Exception as e:  # noqa
        return None, f"{type(e).__name__}: {str(e)[:120]}"
    row = res.data.iloc[0]
    return {m: float(v) for m, v in res.resource_usage().items()} if hasattr(res, "resource_usage") else {}, None


def expected_peak(payload, trips, bpvs, n_inst=1):
    arch, wl, sk, opts, vpa = payload
    series = liveness_concrete(sk, arch, wl, trips, persistent=opts.get("persistent", ()), n_inst=n_inst)
    return {mem: max(sum(v * bpvs.get((mem, t), 8) for t, v in occ.items()) for occ in ser) for mem, ser in series.items()}


def whole_concrete(payload, trips, bpvs, n_inst=1):
    arch, wl, sk, opts, vpa = payload
    ename, tensors, outs, rvs = M.WORKLOADS[wl]
    out = {}
    for mem, hs in holders_by_memory(sk, arch, wl).items():
        tot = 0
        for pos, t, backing in hs:
            v = 1
            for dd in tensors[t]:
                for j in M.loops_of(sk):
                    if j > pos and sk[j][1] == dd[0]:
                        v *= trips[j]
            if backing and t in opts.get("persistent", ()):
                v *= n_inst
            tot += v * bpvs.get((mem, t), 8)
        out[mem] = tot
    return out


def replay(payload, d, trips, vals, st):
    arch, wl, sk, opts, vpa = payload
    ename, tensors, outs, rvs = M.WORKLOADS[wl]
    bpvs = {}
    for k, c in M.ARCHS[arch]:
        for t in tensors:
            v = vals.get(f"bpv_{c}_{t}")
            bpvs[(c, t)] = float(v) if v is not None else 8.0
    # reported and peak bits are both linear in the bits-per-value vector: rescale the solver's
    # (unbounded) values into a range the concrete run accepts
    mx = max(bpvs.values())
    if mx > 64 or mx < 1e-3:
        bpvs = {k: v * 16.0 / mx for k, v in bpvs.items()}
    ni = (int(vals.get("N_workload") or 1), int(vals.get("N_einsum") or 1))
    size = 10 ** 9
    sizes = {c: size for k, c in M.ARCHS[arch] if k == "mem"}
    got, err = concrete_usage(payload, trips, bpvs, sizes, ni)
    st.replays += 1
    if err:
        raise HarnessError(f"replay failed to run: {err}")
    exp = expected_peak(payload, trips, bpvs, ni[0] * ni[1])
    bad = []
    strict = all(t >= 3 for t in trips.values())
    whole = whole_concrete(payload, trips, bpvs, ni[0] * ni[1])
    for mem, peak in exp.items():
        rep = got.get(mem, 0.0) * size
        eq = strict and unobstructed(sk, arch, wl, mem)
        if (eq and abs(rep - peak) > 1e-6 * max(1, peak)) or rep < peak - 1e-6 * max(1, peak) or rep > whole[mem] + 1e-6 * max(1, peak):
            bad.append(dict(memory=mem, reported_bits=rep, peak_bits=peak, whole_tile_bits=whole[mem], equality_expected=eq))
    if not bad:
        raise HarnessError(f"C06 model does not reproduce: {M.sk_str(sk)} {d} trips={trips}")
    return dict(property=PID, arch=arch, workload=wl, skeleton=sk, skeleton_str=M.sk_str(sk), arch_opts=opts,
                trips={str(k): v for k, v in trips.items()}, bpv={f"{a}|{b}": v for (a, b), v in bpvs.items()}, n_inst=list(ni),
                obligation=d, mismatches=bad, what=f"usage != peak occupancy for {M.sk_str(sk)} at trips {trips}: {bad[0]}")


def validate_concrete(payload, K, st):
    """Oracle validation + rejection clause through the public API: with size == peak the mapping
    is accepted, with size one bit smaller it is rejected (InvalidMappingError)."""
    arch, wl, sk, opts, vpa = payload
    rng = random.Random(hash(M.sk_str(sk)) & 0xFFFF)
    ename, tensors, outs, rvs = M.WORKLOADS[wl]
    L = M.loops_of(sk)
    bpvs = {(c, t): rng.choice([4, 8, 16]) for k, c in M.ARCHS[arch] for t in tensors}
    out = []
    for trips in ({i: 3 for i in L}, {i: rng.randint(1, K + 1) for i in L}):
        exp = expected_peak(payload, trips, bpvs, 1)
        whole = whole_concrete(payload, trips, bpvs, 1)
        got, err = concrete_usage(payload, trips, bpvs, None)
        st.extra["traces_validated_against_impl"] = st.extra.get("traces_validated_against_impl", 0) + 1
        if err:
            raise HarnessError(f"concrete run failed: {err}")
        strict = all(t >= 3 for t in trips.values())
        bad = []
        for m, p in exp.items():
            rep = got.get(m, 0) * 10 ** 12
            eq = strict and unobstructed(sk, arch, wl, m)
            if (eq and abs(rep - p) > 1e-3 * max(1, p)) or rep < p - 1e-3 * max(1, p) or rep > whole[m] + 1e-3 * max(1, p):
                bad.append(dict(memory=m, reported_bits=rep, peak_bits=p, whole_tile_bits=whole[m], equality_expected=eq))
        if bad:
            out.append(dict(property=PID, arch=arch, workload=wl, skeleton=sk, skeleton_str=M.sk_str(sk), arch_opts=opts,
                            trips={str(k): v for k, v in trips.items()}, bpv={f"{a}|{b}": v for (a, b), v in bpvs.items()}, n_inst=[1, 1],
                            obligation="concrete validation", mismatches=bad,
                            what=f"usage != peak occupancy for {M.sk_str(sk)} at trips {trips}: {bad[0]}"))
            break
        # rejection clause on the innermost memory: rejected iff the REPORTED bits exceed the size, and
        # (soundness) always rejected when the true peak exceeds the size
        mem = [c for k, c in M.ARCHS[arch] if k == "mem"][-1]
        if mem in exp and exp[mem] > 1:
            rep_bits = round(got.get(mem, 0) * 10 ** 12)
            ok, e1 = concrete_usage(payload, trips, bpvs, {mem: rep_bits})
            rej, e2 = concrete_usage(payload, trips, bpvs, {mem: exp[mem] - 1})
            st.extra["rejection_probes"] = st.extra.get("rejection_probes", 0) + 1
            if e1 is not None or e2 is None or "InvalidMapping" not in e2:
                out.append(dict(property=PID, arch=arch, workload=wl, skeleton=sk, skeleton_str=M.sk_str(sk), arch_opts=opts,
                                trips={str(k): v for k, v in trips.items()}, bpv={f"{a}|{b}": v for (a, b), v in bpvs.items()}, n_inst=[1, 1],
                                obligation="rejection clause", mismatches=[dict(memory=mem, size_eq_peak=str(e1), size_below_peak=str(e2))],
                                what=f"rejection clause: size==peak -> {e1}, size==peak-1 -> {e2} for {M.sk_str(sk)} trips {trips}"))
                break
    return out


def shard(payload):
    K, items = payload
    st = Stats()
    viol = []
    for it in items:
        viol.extend(check_instance(it, K, st))
    d = st.to_dict()
    d["violations"] = viol
    return d


def run(args):
    t0 = time.time()
    if args.replay:
        v = json.load(open(args.replay))
        sk = [tuple(x) for x in v["skeleton"]]
        payload = (v["arch"], v["workload"], sk, v["arch_opts"], {})
        trips = {int(k): x for k, x in v["trips"].items()}
        bpvs = {tuple(k.split("|")): x for k, x in v["bpv"].items()}
        got, err = concrete_usage(payload, trips, bpvs, None, tuple(v["n_inst"]))
        exp = expected_peak(payload, trips, bpvs, v["n_inst"][0] * v["n_inst"][1])
        print("reported bits", {m: x * 10 ** 12 for m, x in (got or {}).items()}, "peak bits", exp, err)
        bad = any(abs((got or {}).get(m, 0) * 10 ** 12 - p) > 1e-3 * max(1, p) for m, p in exp.items())
        return 1 if bad else 0
    K = 3 if args.tier == "quick" else 4
    inst = make_instantiations(args.tier)
    stats = Stats()
    nsh = max(1, min(len(inst), args.jobs * 3))
    res = run_sharded(shard, [(K, inst[i::nsh]) for i in range(nsh)], args.jobs)
    violations = []
    for r in res:
        stats.merge(r)
        violations.extend(r["violations"])
    stats.unknown += len(stats.extra.get("symbolic_execution_failed") or [])
    kf = load_known_findings(PID)
    known, remaining = [], []
    for v in violations:
        hit = [k for k in kf if k.get("key") and k["key"] in v.get("what", "")]
        (known.append(hit[0]["what_fails"]) if hit else remaining.append(v))
    return finish(
        PID, args.tier, "model_checking", stats, t0, remaining[:5], known,
        functions_encoded=["run_model (occupancy loop, running totals, InvalidMappingError)", "insert_reservation_nodes", "ReservationAnalysisTracker",
                           "analyze_reservation", "analyze_storage", "compute_dense_tile_occupancy", "BuffetStats.n_loops_above"],
        bounds=dict(trip_counts=f"2..{K} for equality, 1..{K} for reported >= peak", loops="<= 5 per skeleton", instantiations=len(inst),
                    workloads=["MM", "MV"], n_instances="1..4 (persistent tensors)", bits_per_value="positive reals, unbounded",
                    outside="fused multi-Einsum reservations (PmappingDataframe.merge_next etc. are pandas code), affine projections v+w, "
                            "spatial loops, copy Einsums (_lower=False), meaning of each individual reservation column index"),
        assumptions=["element e of a holder is used exactly at the steps whose relevant loop digits equal e's digits",
                     "backing (outermost) holder keeps its whole tile for its visit; persistent tensors scale with n_instances",
                     "equality is claimed for trip counts >= 2 only: with a single-iteration irrelevant loop the model reports more (never less)"],
        rule="per instantiation and memory: reported>=peak, reported==peak, reservation-column consistency; distinct by (instantiation, obligation)",
        explanation="Element-liveness peak over guarded time steps vs the model's usage formula.",
    )


if __name__ == "__main__":
    main_wrapper(PID, run)
