"""C05 — model action counts, energy and latency = explicit LoopTree execution (Route A).

Per instantiation (architecture, workload, skeleton, flags) the real evaluate_mapping -> run_model
code runs once with ALL numeric inputs symbolic; z3 then decides, for every trip-count vector in
[1,K]^loops and all positive costs:
  (1) every per-component/per-tensor read/write count == the loop-nest executor's count / values
      per action (documented precedence), and the compute count;
  (2) energy columns == count x per-action energy, leak == leak power x total latency, totals are
      the sums;   (3) latency columns == the component's total_latency expression over its action
      counts, total latency == max over components.
(2) and (3) are identities between model outputs and hold for arbitrary (not only perfectly
factorising) tile shapes; together with (1) they give the property's energy/latency clause."""
from __future__ import annotations

import json
import random
import time

import sympy
import z3

from lib.common import (HarnessError, Stats, count_obligation, finish, load_known_findings,
                        main_wrapper, run_sharded, seed, z3_check)
from lib.symx import model as M
from lib.symx.refexec import reference_z3, simulate, vpa_mode_of
from lib.symx.tr import Tr, model_value

PID = "C05"
SEP = "<SEP>"


def make_instantiations(tier, families=None, want_toll=None):
    """(arch, wl, sk, arch_opts, vpa_mode) list, deterministic for VERIF_SEED."""
    rng = random.Random(seed() + 12345)
    fam = families or ([("A2", "MM", 36), ("A2", "MV", 14), ("A2", "CONV1", 14), ("A3", "MM", 28), ("A3", "CONV1", 10),
                        ("A2T", "MM", 22), ("A2T", "CONV1", 8), ("A3T", "MM", 14), ("A3T", "MV", 10)] if tier == "quick" else
                       [("A2", "MM", 160), ("A2", "MV", 60), ("A2", "CONV1", 60), ("A3", "MM", 140), ("A3", "MV", 50), ("A3", "CONV1", 50),
                        ("A2T", "MM", 100), ("A2T", "MV", 40), ("A2T", "CONV1", 40), ("A3T", "MM", 100), ("A3T", "MV", 40), ("A3T", "CONV1", 40)])
    out = []
    for arch, wl, n in fam:
        ename, tensors, outs, rvs = M.WORKLOADS[wl]
        comps = [nm for k, nm in M.ARCHS[arch]]
        for si, sk in enumerate(M.gen_skeletons(arch, wl, n, seed(), max_loops_per_rv=2, nomain_prob=0.15)):
            skip = {c: (rng.random() < 0.7) for c in comps}
            if si % 3 == 0:
                skip = {c: True for c in comps}       # the default configuration
            opts = {"skip": skip}
            if any(k == "toll" for k, _ in M.ARCHS[arch]):
                opts["toll_dir"] = {t: rng.choice(["up", "down", "up_and_down"]) for t in tensors}
            if si % 4 == 1:
                opts["latency_expr"] = {c: "max(a.n_calls / a.throughput for a in actions)" for c in comps if rng.random() < 0.5}
            vpa = {}
            for k, c in M.ARCHS[arch]:
                if k == "comp":
                    continue
                for t in tensors:
                    vpa[("c", c, t)] = rng.random() < 0.35
                    for a in (["read"] if k == "toll" else ["read", "write"]):
                        vpa[("a", c, a, t)] = rng.random() < 0.3
            out.append((arch, wl, sk, opts, vpa))
    return out


def env_fn(tr):
    def env(name):
        if name not in tr.env:
            tr.env[name] = z3.Real(name)
        return tr.env[name]
    return env


def check_instance(payload, K, st: Stats, doc_skip=False, collect=None):
    """Returns list of violation dicts (already replayed)."""
    arch, wl, sk, opts, vpa = payload
    label = f"{arch}/{wl} {M.sk_str(sk)} skip={ {k: v for k, v in opts.get('skip', {}).items() if not v} or 'all'} dir={opts.get('toll_dir', '-')} lat={'max' if opts.get('latency_expr') else 'sum'}"
    t0 = time.time()
    run = M.symbolic_run(arch, wl, sk, opts, vpa)
    rng = random.Random(hash(label) & 0xFFFF)
    if run.error:
        # does the real code accept this mapping on numbers?  no -> the skeleton is outside the
        # real code's domain; yes -> the code cannot be executed on symbols (inconclusive for the
        # solver) but the concrete validation still applies
        try:
            viol = validate_concrete(payload, K, st, rng)
        except Exception as e:  # noqa
            st.extra.setdefault("rejected_by_real_code", [])
            st.extra["rejected_by_real_code"].append(f"{label}: {run.error[:120]} / {type(e).__name__}")
            return []
        st.extra.setdefault("symbolic_execution_failed", [])
        st.extra["symbolic_execution_failed"].append(f"{label}: {run.error[:200]}")
        return viol
    st.instantiations += 1
    subs, nsym = M.substitution(sk, run)
    ename, tensors, outs, rvs = M.WORKLOADS[wl]
    tr = Tr()
    nvar = {i: z3.Int(s.name) for i, s in nsym.items()}
    for i, s in nsym.items():
        tr.env[s.name] = nvar[i]
    env = env_fn(tr)
    ref_vals, ref_comp = reference_z3(sk, arch, wl, opts, nvar, K, doc_skip=doc_skip)
    df = run.df
    # ---- (1) counts -----------------------------------------------------------------------
    obligations = []      # (description, z3 lhs, z3 rhs, kind)
    keys = set(ref_vals)
    model_keys = {}
    for col in df:
        p = col.split(SEP)
        if p[0] == "action" and len(p) == 4 and p[3] in ("read", "write"):
            model_keys[(p[1], p[2], p[3])] = col
    for k in sorted(keys | set(model_keys)):
        c, t, a = k
        mexpr = M.apply_subs(df[model_keys[k]], subs) if k in model_keys else sympy.Integer(0)
        # multiply the model's ACTION count by the expected values-per-action (sympy), so that the
        # cost symbols cancel and z3 compares VALUES; if they do not cancel z3 sees them as reals
        sy = lambda n: sympy.Symbol(n, positive=True)
        mode = vpa_mode_of(vpa, c, a, t)
        vpa_sym = sy(f"avpa_{c}_{a}_{t}") if mode == "action" else sy(f"cvpa_{c}_{t}") if mode == "comp" else sy(f"bpa_{c}_{a}") / sy(f"bpv_{c}_{t}")
        lhs = sympy.cancel(sympy.expand(mexpr * vpa_sym))
        rhs = ref_vals.get(k, z3.IntVal(0))
        obligations.append((f"values moved: {c}.{a}[{t}]  model={str(lhs)[:120]}", tr(lhs), rhs, "count"))
    ccol = [c for c in df if c.startswith("action" + SEP) and c.endswith(SEP + "compute")]
    for c in ccol:
        obligations.append((f"computes {c}", tr(M.apply_subs(df[c], subs)), ref_comp, "count"))
    if not ccol:
        raise HarnessError("no compute action column in the model output")
    # ---- Toll clauses (C31): no write actions, no occupancy ------------------------------------
    for k, c in M.ARCHS[arch]:
        if k != "toll":
            continue
        for col, v in list(df.items()) + list(run.usage.items()):
            p = col.split(SEP)
            is_write = p[0] == "action" and len(p) == 4 and p[1] == c and p[3] == "write"
            is_occ = (p[0] == "usage" and len(p) >= 3 and p[1] == "memory" and p[2] == c) or (p[0] == "reservation" and p[1] == c)
            if is_write or is_occ:
                obligations.append((f"toll: {col} == 0", tr(M.apply_subs(v, subs)), z3.IntVal(0), "toll"))
    # ---- (2),(3) identities between model outputs (no substitution: arbitrary tile shapes) --------
    ident = []
    comps = [nm for k, nm in M.ARCHS[arch]]
    act = {}
    for col, v in df.items():
        p = col.split(SEP)
        if p[0] == "action" and len(p) == 4:
            act[(p[1], p[2], p[3])] = M.canon(v)
    sy0 = lambda n: sympy.Symbol(n, positive=True)
    en_cols = {}
    for col, v in df.items():
        p = col.split(SEP)
        if p[0] == "energy" and len(p) == 4:
            c, t, a = p[1], p[2], p[3]
            en_cols[col] = M.canon(v)
            if (c, t, a) in act:
                ident.append((f"{col} == action x E", M.canon(v), act[(c, t, a)] * sy0(f"E_{c}_{a}")))
        if p[0] == "energy" and len(p) == 3 and p[2] == "leak":
            en_cols[col] = M.canon(v)
            ident.append((f"{col} == leak power x total latency", M.canon(v), sy0(f"leak_{p[1]}") * M.canon(df["Total" + SEP + "latency"])))
    # every non-zero action has an energy column
    for (c, t, a), v in act.items():
        col = SEP.join(["energy", c, t, a])
        if col not in df and v != 0:
            ident.append((f"missing energy column {col}: action count must be 0", v, sympy.Integer(0)))
    ident.append(("Total dynamic_energy == sum of action energies", M.canon(df["Total" + SEP + "dynamic_energy"]),
                  sum((v for c, v in en_cols.items() if not c.endswith("leak")), sympy.Integer(0))))
    ident.append(("Total leak_energy == sum of leak energies", M.canon(df["Total" + SEP + "leak_energy"]),
                  sum((v for c, v in en_cols.items() if c.endswith("leak")), sympy.Integer(0))))
    lat = {}
    for c in comps:
        col = "latency" + SEP + c
        if col not in df:
            continue
        lat[c] = M.canon(df[col])
        per_action = {}
        for (cc, t, a), v in act.items():
            if cc == c:
                per_action[a] = per_action.get(a, 0) + v
        kinds = {nm: k for k, nm in M.ARCHS[arch]}
        names = ["compute"] if kinds[c] == "comp" else ["read"] if kinds[c] == "toll" else ["read", "write"]
        terms = [per_action.get(a, 0) / sy0(f"T_{c}_{a}") for a in names]
        if c in opts.get("latency_expr", {}):
            exp = sympy.Max(*terms) if len(terms) > 1 else terms[0]
        else:
            exp = sum(terms)
        ident.append((f"latency[{c}] == total_latency expression over its action counts", lat[c], exp))
    ident.append(("Total latency == max over components", M.canon(df["Total" + SEP + "latency"]), sympy.Max(*lat.values())))
    tr2 = Tr()
    id_terms = []
    for d, a, b in ident:
        # the difference is normalised by sympy.expand first (Max/ceiling atoms stay opaque):
        # identical polynomials cancel syntactically and z3 is left with `0 != 0`
        diff = sympy.expand(a - b)
        id_terms.append((d, tr2(diff), z3.IntVal(0)))
    st.encode_s += time.time() - t0
    # ---- solve ------------------------------------------------------------------------------------------
    viol = []
    s = z3.Solver()
    s.add([z3.And(v >= 1, v <= K) for v in nvar.values()])
    s.add([v > 0 for n, v in tr.env.items() if not n.startswith("n")])
    s.add(tr.constraints())
    if z3_check(s, st, 60000) != "sat":
        raise HarnessError(f"vacuous assumptions: {label}")
    st.vacuity_ok += 1
    for d, a, b, kind in obligations:
        s.push()
        s.add(a != b)
        tq = time.time()
        r = z3_check(s, st, 120000)
        m = s.model() if r == "sat" else None
        if r == "unknown":
            # finite-domain case split (still the solver's verdict): fix the first two trip counts
            # to each of their K*K values; unsat everywhere = unsat, a model anywhere = sat
            r, m = split_check(s, list(nvar.values())[:2], K, st)
        count_obligation(st, r, label + d)
        if collect is not None:
            collect.append((label, d, r, time.time() - tq))
        if r == "sat":
            # prefer a witness with small dyadic parameter values: it survives the float arithmetic of
            # the concrete replay (an arbitrary rational model can differ by less than the tolerance)
            s.push()
            s.add([z3.Or([v == z3.RealVal(x) for x in ("1/2", "1", "2", "3", "4", "8")]) for n_, v in tr.env.items() if not n_.startswith("n") and z3.is_real(v)])
            if z3_check(s, st, 60000) == "sat":
                m = s.model()
            s.pop()
            trips = {i: int(model_value(m, v)) for i, v in nvar.items()}
            costs = {n: model_value(m, v) for n, v in tr.env.items() if not n.startswith("n")}
            viol.append(("count", d, trips, costs))
        s.pop()
    s2 = z3.Solver()
    s2.add([v > 0 for v in tr2.env.values()])
    s2.add(tr2.constraints())
    for d, a, b in id_terms:
        s2.push()
        s2.add(a != b)
        tq = time.time()
        r = z3_check(s2, st, 120000)
        count_obligation(st, r, label + d + str(a)[:200])
        if collect is not None:
            collect.append((label, d, r, time.time() - tq))
        if r == "sat":
            m = s2.model()
            viol.append(("identity", d, None, {n: model_value(m, v) for n, v in tr2.env.items()}))
        s2.pop()
    st.sample({"instantiation": label, "obligation": obligations[0][0], "reference": "sum over guarded iteration tuples x tile"})
    out = []
    for kind, d, trips, costs in viol[:3]:
        out.append(replay(payload, kind, d, trips, costs, st))
    if not out:
        out = validate_concrete(payload, K, st, rng)
    return [v for v in out if v is not None]


def split_check(s, vs, K, st):
    from lib.common import split_check as _sc
    r, fix, m = _sc(s, vs, 1, K, st, 120000)
    return r, m


# ---------------------------------------------------------------------------------------------------------
def concrete_run(arch, wl, sk, opts, vpa, trips, costs=None, wl_opts=None):
    """The real evaluate_mapping on numbers (public API, nothing patched).  Returns the first row
    of the result as a dict."""
    from accelforge.util.parallel import set_n_parallel_jobs
    set_n_parallel_jobs(1)
    L = M.loops_of(sk)
    ename, tensors, outs, rvs = M.WORKLOADS[wl]
    bounds = {rv: 1 for rv in rvs}
    tile = {}
    for rv in rvs:
        prod = 1
        for i in reversed([i for i in L if sk[i][1] == rv]):
            tile[i] = prod
            prod *= trips[i]
        bounds[rv] = prod
    spec = M.build_spec(arch, wl, sk, opts, bounds=bounds, tile_shapes=tile, wl_opts=wl_opts)
    costs = costs or {}
    from accelforge.frontend import arch as A
    for c in spec.arch.get_nodes_of_type(A.Component):
        for a in c.actions:
            a.energy = float(costs.get(f"E_{c.name}_{a.name}", 1))
            a.throughput = float(costs.get(f"T_{c.name}_{a.name}", 1))
        c.leak_power = float(costs.get(f"leak_{c.name}", 1))
        if isinstance(c, A.TensorHolder):
            c.bits_per_value = {t: float(costs.get(f"bpv_{c.name}_{t}", 8)) for t in tensors}
            cv = {}
            for a in c.actions:
                a.bits_per_action = float(costs.get(f"bpa_{c.name}_{a.name}", 1))
                a.values_per_action = {t: float(costs.get(f"avpa_{c.name}_{a.name}_{t}", 2)) for t in tensors
                                       if vpa.get(("a", c.name, a.name, t))}
            c.values_per_action = {t: float(costs.get(f"cvpa_{c.name}_{t}", 4)) for t in tensors if vpa.get(("c", c.name, t))}
    res = spec.evaluate_mapping()
    row = res.data.iloc[0]
    return {k: row[k] for k in res.data.columns}, bounds


def expected_concrete(arch, wl, sk, opts, vpa, trips, costs):
    """Concrete oracle: simulator values -> actions by precedence."""
    vals, computes = simulate(sk, arch, wl, opts, trips)
    ename, tensors, outs, rvs = M.WORKLOADS[wl]
    exp = {}
    for (c, t, a), v in vals.items():
        mode = vpa_mode_of(vpa, c, a, t)
        if mode == "action":
            vp = float(costs.get(f"avpa_{c}_{a}_{t}", 2))
        elif mode == "comp":
            vp = float(costs.get(f"cvpa_{c}_{t}", 4))
        else:
            vp = float(costs.get(f"bpa_{c}_{a}", 1)) / float(costs.get(f"bpv_{c}_{t}", 8))
        exp[(c, t, a)] = v / vp
    return exp, computes


def compare_concrete(payload, trips, fc):
    """Real evaluate_mapping on numbers vs the naive simulator.  Returns (mismatches, bounds)."""
    arch, wl, sk, opts, vpa = payload
    row, bounds = concrete_run(arch, wl, sk, opts, vpa, trips, fc)
    exp, computes = expected_concrete(arch, wl, sk, opts, vpa, trips, fc)
    ename = M.WORKLOADS[wl][0]
    bad = []
    for (c, t, a), v in sorted(exp.items()):
        col = f"{ename}{SEP}action{SEP}{c}{SEP}{t}{SEP}{a}"
        got = float(row.get(col, 0.0))
        if abs(got - v) > 1e-6 * max(1.0, abs(v)):
            bad.append(dict(column=col, model=got, executed=v))
    for col in row:
        p = col.split(SEP)
        if len(p) == 5 and p[1] == "action" and p[4] in ("read", "write") and (p[2], p[3], p[4]) not in exp and abs(float(row[col])) > 1e-9:
            bad.append(dict(column=col, model=float(row[col]), executed=0.0))
    ccol = [c for c in row if c.endswith(SEP + "compute") and SEP + "action" + SEP in c]
    for c in ccol:
        if abs(float(row[c]) - computes) > 1e-9:
            bad.append(dict(column=c, model=float(row[c]), executed=computes))
    # energy / latency from the executed counts
    kinds = {nm: k for k, nm in M.ARCHS[arch]}
    lat = {}
    dyn = 0.0
    for c in kinds:
        names = ["compute"] if kinds[c] == "comp" else ["read"] if kinds[c] == "toll" else ["read", "write"]
        per = {a: sum(v for (cc, t, aa), v in exp.items() if cc == c and aa == a) for a in names}
        if kinds[c] == "comp":
            per["compute"] = computes
        ts = [per[a] / fc.get(f"T_{c}_{a}", 1.0) for a in names]
        lat[c] = max(ts) if c in opts.get("latency_expr", {}) else sum(ts)
        dyn += sum(per[a] * fc.get(f"E_{c}_{a}", 1.0) for a in names)
    for c, v in lat.items():
        col = f"{ename}{SEP}latency{SEP}{c}"
        if col in row and abs(float(row[col]) - v) > 1e-6 * max(1.0, abs(v)):
            bad.append(dict(column=col, model=float(row[col]), executed=v))
    tot_lat = max(lat.values())
    leak = sum(fc.get(f"leak_{c}", 1.0) for c in kinds) * tot_lat
    for name, got, v in [("Total<SEP>latency", float(row["Total<SEP>latency"]), tot_lat),
                         ("Total<SEP>energy", float(row["Total<SEP>energy"]), dyn + leak)]:
        if abs(got - v) > 1e-6 * max(1.0, abs(v)):
            bad.append(dict(column=name, model=got, executed=v))
    return bad, bounds


def violation_record(payload, trips, fc, bad, bounds, d):
    arch, wl, sk, opts, vpa = payload
    cls = classify(bad, opts.get("skip", {}), sk, arch, wl)
    return dict(property=PID, arch=arch, workload=wl, skeleton=sk, skeleton_str=M.sk_str(sk), arch_opts=opts,
                vpa_mode={"|".join(k): v for k, v in vpa.items() if v}, trips={str(k): v for k, v in trips.items()}, costs=fc,
                bounds=bounds, obligation=d, mismatches=bad[:12], key=cls,
                what=f"{cls}: model != executed loop nest for {M.sk_str(sk)} at trip counts {trips}: {bad[0]}")


def replay(payload, kind, d, trips, costs, st):
    arch, wl, sk, opts, vpa = payload
    fc = {k: float(v) for k, v in (costs or {}).items() if v is not None and not k.startswith(("B_", "stride"))}
    if kind == "count":
        cands = [trips]
    else:
        # an identity between model outputs failed for SOME tile shapes (the solver's witness need
        # not be a perfect factorisation): look for a concrete witness among small trip vectors
        import itertools as _it
        L = M.loops_of(sk)
        cands = [{i: 2 for i in L}, {i: 3 for i in L}]
        rng = random.Random(len(sk))
        allv = list(_it.product([1, 2, 3], repeat=len(L)))
        rng.shuffle(allv)
        cands += [dict(zip(L, v)) for v in allv[:40]]
    for tv in cands:
        bad, bounds = compare_concrete(payload, tv, fc)
        st.replays += 1
        if bad:
            return violation_record(payload, tv, fc, bad, bounds, d)
    raise HarnessError(f"solver model does not reproduce on the real code: {M.sk_str(sk)} {d} trips={trips} values={fc}")


def validate_concrete(payload, K, st, rng):
    """Translator/oracle validation (Serval style), not the deciding step: the real code on
    numbers vs the naive simulator at a few trip-count vectors.  Also the only thing that can see
    code that branches on concrete values (invisible to a run on symbols)."""
    arch, wl, sk, opts, vpa = payload
    L = M.loops_of(sk)
    vecs = [{i: 2 for i in L}, {i: 1 + (k % K) for k, i in enumerate(L)}, {i: rng.randint(1, K + 1) for i in L}]
    costs = {}
    for k, c in M.ARCHS[arch]:
        for a in (["compute"] if k == "comp" else ["read"] if k == "toll" else ["read", "write"]):
            costs[f"E_{c}_{a}"] = rng.choice([0.5, 1.0, 3.0])
            costs[f"T_{c}_{a}"] = rng.choice([0.25, 1.0, 2.0, 8.0])
            costs[f"bpa_{c}_{a}"] = rng.choice([1.0, 2.0, 8.0])
        costs[f"leak_{c}"] = rng.choice([0.0, 0.5, 2.0])
        for t in M.WORKLOADS[wl][1]:
            costs[f"bpv_{c}_{t}"] = rng.choice([4.0, 8.0, 16.0])
            costs[f"cvpa_{c}_{t}"] = rng.choice([0.5, 2.0, 4.0])
            for a in ("read", "write"):
                costs[f"avpa_{c}_{a}_{t}"] = rng.choice([1.0, 2.0, 8.0])
    out = []
    for trips in vecs:
        try:
            bad, bounds = compare_concrete(payload, trips, costs)
        except HarnessError:
            raise
        st.extra["traces_validated_against_impl"] = st.extra.get("traces_validated_against_impl", 0) + 1
        if bad:
            out.append(violation_record(payload, trips, costs, bad, bounds, "concrete validation"))
            break
    return out


def classify(bad, flags, sk, arch, wl):
    """Key used by known_findings.json."""
    cols = {b["column"].split(SEP)[-1] for b in bad}
    return "counts:" + ",".join(sorted(cols))


def shard(payload):
    K, items = payload
    st = Stats()
    viol = []
    for it in items:
        viol.extend(check_instance(it, K, st))
    d = st.to_dict()
    d["violations"] = viol
    return d


def mutant_probe(K, st):
    """Seeded wrong reference: an executor that never skips the first fetch must be refuted by
    the solver on an instantiation with an output tensor held in GLB (vacuity guard)."""
    sk = M.gen_skeletons("A2", "MM", 2, 0)[1]
    opts = {"skip": {"Main": True, "GLB": True, "MAC": True}}
    coll = []
    st2 = Stats()
    run = M.symbolic_run("A2", "MM", sk, opts, {})
    if run.error:
        return          # reported per instantiation as symbolic_execution_failed
    subs, nsym = M.substitution(sk, run)
    nvar = {i: z3.Int(s.name) for i, s in nsym.items()}
    tr = Tr()
    for i, s in nsym.items():
        tr.env[s.name] = nvar[i]
    wrong, _ = reference_z3(sk, "A2", "MM", {"skip": {"Main": False, "GLB": False, "MAC": False}}, nvar, K)
    s = z3.Solver()
    s.add([z3.And(v >= 1, v <= K) for v in nvar.values()])
    refuted = 0
    for (c, t, a), rhs in wrong.items():
        col = SEP.join(["action", c, t, a])
        if col not in run.df or t != "T1":
            continue
        m = M.apply_subs(run.df[col], subs)
        byname = {x.name: x for x in m.free_symbols}
        vp = sympy.Symbol(f"bpa_{c}_{a}") / sympy.Symbol(f"bpv_{c}_{t}")
        vp = vp.xreplace({x: byname[x.name] for x in vp.free_symbols if x.name in byname})
        lhs = tr(sympy.cancel(sympy.expand(m * vp)))
        s.push()
        s.add(lhs != rhs)
        if z3_check(s, st, 60000) == "sat":
            refuted += 1
        s.pop()
    if not refuted:
        raise HarnessError("seeded wrong reference (no first-fetch skipping) was not refuted")
    st.mutants_refuted += refuted


def run(args):
    t0 = time.time()
    if args.replay:
        v = json.load(open(args.replay))
        sk = [tuple(x) for x in v["skeleton"]]
        vpa = {tuple(k.split("|")): m for k, m in v["vpa_mode"].items()}
        trips = {int(k): x for k, x in v["trips"].items()}
        st = Stats()
        try:
            r = replay((v["arch"], v["workload"], sk, v["arch_opts"], vpa), "count", v["obligation"], trips, v["costs"], st)
        except HarnessError as e:
            print("does not reproduce:", e)
            return 0
        print(json.dumps(r["mismatches"], indent=1))
        return 1
    K = 3 if args.tier == "quick" else 4
    inst = make_instantiations(args.tier)
    stats = Stats()
    mutant_probe(K, stats)
    nsh = max(1, min(len(inst), args.jobs * 3))
    shards = [(K, inst[i::nsh]) for i in range(nsh)]
    res = run_sharded(shard, shards, args.jobs)
    violations = []
    for r in res:
        stats.merge(r)
        violations.extend(r["violations"])
    kf = load_known_findings(PID)
    known, remaining = [], []
    for v in violations:
        hit = [k for k in kf if k.get("key") and k["key"] == v.get("key")]
        (known.append(hit[0]["what_fails"]) if hit else remaining.append(v))
    # every generated skeleton is accepted by the unchanged tree; a rejection or a failure to run on
    # symbols is inconclusive (exit 3), never a silent pass
    for k in ("symbolic_execution_failed", "rejected_by_real_code"):
        stats.unknown += len(stats.extra.get(k) or [])     # inconclusive, never success
    return finish(
        PID, args.tier, "model_checking", stats, t0, remaining[:5], known,
        functions_encoded=["accelforge.model.main.evaluate_mapping (up to run_model)", "run_model", "analyze_reuse_and_add_reservations_to_mapping",
                           "insert_reservation_nodes", "analyze_node/analyze_temporal/analyze_storage/analyze_toll/analyze_reservation/analyze_compute",
                           "BuffetStats.repeat_temporal/__add__", "TensorHolder._get_values_per_action", "gather_actions",
                           "compute_energy_from_actions", "component_latency", "insert_sympy_symbols", "loop_stride_and_shape"],
        bounds=dict(trip_counts=f"1..{K} per loop (symbolic integers)", loops_per_rank_variable="<=2", levels="2-3 memories (+Toll)",
                    instantiations=len(inst), workloads=sorted({i[1] for i in inst}), architectures=sorted({i[0] for i in inst}),
                    costs="bits per value, bits/values per action, energies, throughputs, leak powers: positive reals, unbounded",
                    outside="spatial loops, imperfect factorisation in obligation (1), >2 loops per rank variable, projections other than v and v+w, "
                            "copy Einsums, n_instances != 1 (C19)"),
        assumptions=["first visit of an output tile <=> all irrelevant loop indices above the holder are 0 (lexicographic order; validated by the concrete simulator on replays)",
                     "first-fetch skipping is decided by the fetching component's skip_initial_output_write alone (documentation of the field)",
                     "sympy cancel/expand used to divide the model's action count by the expected values-per-action before translation",
                     "floats read as exact rationals"],
        rule="obligations: per instantiation one per (component, tensor, read|write), the compute count, and the energy/latency identities; "
             "non-trivial = mentions a symbolic trip count or cost; distinct by (instantiation, obligation text)",
        explanation="Model formulas (from the real code run on symbols) vs guarded-unrolling executor; see module docstring.",
    )


if __name__ == "__main__":
    main_wrapper(PID, run)
