"""C08 — tile-shape exploration prunes without losing any Pareto-optimal choice
(Route A; end-to-end per template against the symbolic specification of the whole tile space).

For every mapper template (real get_jobs) the real make_tile_shapes(job) runs - with all its
pruning (objective decomposition, goal coalescing, padding, validity and loop pruning, the
intermediate Pareto steps) - and returns a table of tile assignments.  Under capturing wrappers the
same run yields the closed-form formulas of every objective and usage (their equivalence with the
compiled functions is C07).  The space of ALL perfectly factorising tile assignments of the
template is a finite domain (each tile-shape symbol ranges over the divisors of its rank bound,
consecutive tile shapes of a rank variable divide each other); z3, with a one-hot encoding of that
domain (monomials of the formulas as table-defined reals), decides

    there is NO valid assignment s (every usage formula <= 1) whose objective vector is not weakly
    dominated by some returned row                                   (nothing Pareto-optimal is lost)

and, concretely, that every returned row is the image of a valid assignment of the domain (so the
Pareto fronts are equal).  A model is replayed by evaluating the formulas exactly and by a
brute-force front over the whole domain."""
from __future__ import annotations

import itertools
import json
import time
from fractions import Fraction

import sympy
import z3

from lib.common import (HarnessError, Stats, count_obligation, finish, main_wrapper, run_sharded, z3_check)
from lib.symx.model import canon
from lib.symx.templates import get_jobs
from lib.symx.tr import Unsupported, model_value
from props.C07 import capture

PID = "C08"
TOL = 2e-5          # float32 evaluation of the compiled functions vs exact formulas


def divisors(n):
    return [d for d in range(1, n + 1) if n % d == 0]


class FD:
    """finite-domain translation: symbols are one-hot Ints, monomials are table-defined Reals."""

    def __init__(self, domains):
        self.dom = domains                    # name -> list of ints
        self.var = {n: z3.Int(n) for n in domains}
        self.cons = [z3.Or([self.var[n] == d for d in ds]) for n, ds in domains.items()]
        self.mono = {}

    def monomial(self, powers):
        """powers: tuple of (name, exponent) sorted.  Returns a z3 Real defined by its table."""
        if not powers:
            return z3.RealVal(1)
        if powers in self.mono:
            return self.mono[powers]
        names = [p[0] for p in powers]
        size = 1
        for n in names:
            size *= len(self.dom[n])
        if size > 40000:
            raise Unsupported(f"monomial table of {size} entries")
        m = z3.Real("mono_" + "_".join(f"{n}^{e}" for n, e in powers))
        for vals in itertools.product(*[self.dom[n] for n in names]):
            v = Fraction(1)
            for (n, e), x in zip(powers, vals):
                v *= Fraction(x) ** e
            self.cons.append(z3.Implies(z3.And([self.var[n] == x for n, x in zip(names, vals)]), m == z3.RealVal(v)))
        self.mono[powers] = m
        return m

    def poly(self, e):
        """Max/Min-free expression -> sum of coefficient * monomial"""
        e = sympy.expand(e)
        terms = e.as_ordered_terms() if e.is_Add else [e]
        out = []
        for t in terms:
            coeff, rest = t.as_coeff_Mul()
            pw = rest.as_powers_dict()
            powers = []
            for b, x in pw.items():
                if b == 1:
                    continue
                if not (b.is_Symbol and x.is_Integer):
                    raise Unsupported(f"term {t}")
                powers.append((b.name, int(x)))
            c = Fraction(int(coeff.p), int(coeff.q)) if coeff.is_Rational else Fraction(float(coeff))
            out.append(z3.RealVal(c) * self.monomial(tuple(sorted(powers))))
        return z3.Sum(out) if out else z3.RealVal(0)

    def tr(self, e):
        e = sympy.sympify(e)
        if not e.has(sympy.Max, sympy.Min):
            if e.has(sympy.ceiling, sympy.floor, sympy.Heaviside):
                raise Unsupported("ceiling/floor in a perfect-factorisation template")
            return self.poly(e)
        if isinstance(e, (sympy.Max, sympy.Min)):
            args = [self.tr(a) for a in e.args]
            r = args[0]
            for a in args[1:]:
                r = z3.If(a >= r, a, r) if isinstance(e, sympy.Max) else z3.If(a <= r, a, r)
            return r
        if e.is_Add:
            return z3.Sum([self.tr(a) for a in e.args])
        if e.is_Mul:
            plain = sympy.Mul(*[a for a in e.args if not a.has(sympy.Max, sympy.Min)])
            r = self.tr(plain) if plain != 1 else z3.RealVal(1)
            for a in e.args:
                if a.has(sympy.Max, sympy.Min):
                    r = r * self.tr(a)
            return r
        if e.is_Pow and e.args[1].is_Integer and int(e.args[1]) > 0:
            b = self.tr(e.args[0])
            r = b
            for _ in range(int(e.args[1]) - 1):
                r = r * b
            return r
        raise Unsupported(f"{type(e).__name__}")


def template_space(job, symbols):
    from accelforge.frontend.mapping import Loop
    chains = {}
    for n in job.mapping.nodes:
        if isinstance(n, Loop):
            chains.setdefault(n.rank_variable, []).append(n.tile_shape)
    B = {rv: int(b) for rv, b in job.rank_variable_bounds.items()}
    dom = {}
    for rv, ch in chains.items():
        for x in ch:
            if isinstance(x, sympy.Symbol):
                dom[x.name] = divisors(B[rv])
    for s in symbols:
        if s.name not in dom:
            raise Unsupported(f"symbol {s.name} is not a temporal tile shape")
    return chains, B, dom


def chain_constraints(fd, chains, B):
    cons = []
    for rv, ch in chains.items():
        prev = B[rv]
        for x in ch:
            if isinstance(x, sympy.Symbol):
                cur = fd.var[x.name]
                if isinstance(prev, int):
                    cons.append(z3.Or([cur == d for d in fd.dom[x.name] if prev % d == 0]))
                else:
                    pn = prev
                    cons.append(z3.Or([z3.And(fd.var[pn] == do, cur == di) for do in fd.dom[pn] for di in fd.dom[x.name] if do % di == 0]))
                prev = x.name
            else:
                v = int(x)
                if isinstance(prev, int):
                    if prev % v:
                        cons.append(z3.BoolVal(False))
                else:
                    cons.append(z3.Or([fd.var[prev] == do for do in fd.dom[prev] if do % v == 0]))
                prev = v
    return cons


OPS = {"<=": lambda a, b: a <= b, "<": lambda a, b: a < b, ">=": lambda a, b: a >= b, ">": lambda a, b: a > b, "==": lambda a, b: a == b}


def loop_bound_targets(job):
    """[(loop index, op, value)] read from the job BEFORE make_tile_shapes touches it."""
    out = []
    if job.constraints.tile_shape_constraints or job.constraints.min_usage_constraints:
        raise Unsupported("tile-shape / min-usage constraints")
    for c in job.constraints.loop_bounds_constraints:
        op, val = c.constraint.operator, c.constraint.value
        if op not in OPS:
            raise Unsupported(f"loop-bound operator {op}")
        for i in c._target_loop_indices:
            out.append((int(i), op, val))
    return out


def loop_bound_specs(job, targets):
    """[(outer, inner, op, value)] (after the run, when the loops carry their tile-shape symbols).
    The number of iterations of a constrained loop is (tile shape of the NEAREST enclosing loop
    over the same rank variable, or the rank bound) / (own tile shape); outer/inner are symbol
    names or ints.  'Constrained to one' constraints (== 1, <= 1) are included like any other."""
    from accelforge.frontend.mapping import Loop
    loops = [n for n in job.mapping.nodes if isinstance(n, Loop)]
    B = {rv: int(b) for rv, b in job.rank_variable_bounds.items()}
    nm = lambda x: x.name if isinstance(x, sympy.Symbol) else int(x)
    out = []
    for i, op, val in targets:
        n = loops[i]
        prev = B[n.rank_variable]
        for l in loops[:i]:
            if l.rank_variable == n.rank_variable:
                prev = l.tile_shape
        out.append((nm(prev), nm(n.tile_shape), op, val))
    return out


def loop_bound_constraints(fd, specs):
    cons = []
    for outer, inner, op, val in specs:
        o = fd.var[outer] if isinstance(outer, str) else z3.IntVal(outer)
        i = fd.var[inner] if isinstance(inner, str) else z3.IntVal(inner)
        cons.append(OPS[op](z3.ToReal(o), z3.RealVal(Fraction(val)) * z3.ToReal(i)))     # outer / inner  op  value
    return cons


def loop_bounds_ok(env, specs):
    for outer, inner, op, val in specs:
        o = env[outer] if isinstance(outer, str) else outer
        i = env[inner] if isinstance(inner, str) else inner
        if not OPS[op](Fraction(o, i), Fraction(val)):
            return False
    return True


def brute_front(job, symbols, chains, B, dom, objf, usef, lb_specs=()):
    names = [s.name for s in symbols]
    pts = []
    for vals in itertools.product(*[dom[n] for n in names]):
        env = dict(zip(names, vals))
        ok = True
        for rv, ch in chains.items():
            prev = B[rv]
            for x in ch:
                v = env[x.name] if isinstance(x, sympy.Symbol) else int(x)
                if prev % v:
                    ok = False
                prev = v
        if not ok or not loop_bounds_ok(env, lb_specs):
            continue
        sub = {sympy.Symbol(k, positive=True, integer=True): v for k, v in env.items()}
        if all(float(f.subs(sub)) <= 1 + 1e-9 for f in usef.values()):
            pts.append((tuple(float(f.subs(sub)) for f in objf.values()), env))
    return pts


def weakly_dominated(v, rows):
    return any(all(r[k] <= v[k] * (1 + TOL) + 1e-9 for k in range(len(v))) for r in rows)


def shard(payload):
    from accelforge.mapper.FFM._pareto_df.df_convention import col_used_in_pareto
    cfg, idxs = payload
    st = Stats()
    viol = []
    jobs = get_jobs(**cfg)
    for ji in idxs:
        if ji >= len(jobs):
            continue
        job = jobs[ji]
        label = f"{cfg.get('arch')} M={cfg.get('M')} KN={cfg.get('KN')} {'+'.join(cfg.get('metrics'))} glb={cfg.get('glb_size')} template {ji}"
        t0 = time.time()
        try:
            lb_targets = loop_bound_targets(job)
        except Unsupported as e:
            st.extra.setdefault("templates_outside_encoding", []).append(f"{label}: {e}")
            continue
        try:
            cap = capture(job)
        except Exception as e:  # noqa
            st.extra["templates_without_valid_tile_shapes"] = st.extra.get("templates_without_valid_tile_shapes", 0) + 1
            continue
        symbols = cap["rm"][0]
        df = cap["df"]
        e2 = {}
        for syms, d in cap["cd"]:
            e2.update(d)
        cols = [c for c in df.columns if col_used_in_pareto(c)]
        try:
            objf = {}
            for c in cols:
                if c == "Total<SEP>energy":
                    objf[c] = canon(e2["Total<SEP>dynamic_energy"]) + canon(e2["Total<SEP>leak_energy"])
                elif c in e2:
                    objf[c] = canon(e2[c])
                else:
                    raise Unsupported(f"no formula for column {c}")
            usef = {k: canon(v) for k, v in {**cap["rm"][2], **cap["rm"][3]}.items()}
            chains, B, dom = template_space(job, symbols)
            lb_specs = loop_bound_specs(job, lb_targets)
            fd = FD(dom)
            obj_t = {c: fd.tr(f) for c, f in objf.items()}
            use_t = {k: fd.tr(f) for k, f in usef.items()}
            space = chain_constraints(fd, chains, B) + loop_bound_constraints(fd, lb_specs)
            if lb_specs:
                st.extra["templates_with_loop_bound_constraints"] = st.extra.get("templates_with_loop_bound_constraints", 0) + 1
        except Unsupported as e:
            st.extra.setdefault("templates_outside_encoding", []).append(f"{label}: {e}")
            continue
        st.instantiations += 1
        st.encode_s += time.time() - t0
        rows = [tuple(float(r[c]) for c in cols) for _, r in df.iterrows()]
        names = [s.name for s in symbols]
        # ---- every returned row is the image of a valid assignment of the domain (concrete) ---------------
        for _, r in df.iterrows():
            env = {n: int(r[n]) for n in names}
            sub = {sympy.Symbol(k, positive=True, integer=True): v for k, v in env.items()}
            okdom = all(env[n] in dom[n] for n in names)
            vals = tuple(float(f.subs(sub)) for f in objf.values())
            match = all(abs(a - b) <= TOL * max(1.0, abs(b)) for a, b in zip(tuple(float(r[c]) for c in cols), vals))
            valid = all(float(f.subs(sub)) <= 1 + 1e-6 for f in usef.values()) and loop_bounds_ok(env, lb_specs)
            st.extra["rows_checked"] = st.extra.get("rows_checked", 0) + 1
            if not (okdom and match and valid):
                viol.append(dict(property=PID, cfg=cfg, template=ji, kind="row", assignment=env, row=[float(r[c]) for c in cols], formulas=list(vals),
                                 what=f"{label}: returned row {env} is not a valid point of the tile space or does not carry its formulas' values "
                                      f"(in domain {okdom}, values match {match}, valid {valid})"))
                break
        # ---- nothing Pareto-optimal is lost (z3 over the whole finite domain) -----------------------------------
        s = z3.Solver()
        s.add(fd.cons)
        s.add(space)
        s.add([t <= 1 for t in use_t.values()])
        rv = z3_check(s, st, 120000)
        if rv == "unsat":
            # no valid assignment at all: the real code must return no row
            count_obligation(st, "unsat" if len(rows) == 0 else "sat", label + " empty space")
            continue
        if rv != "sat":
            st.unknown += 1
            continue
        st.vacuity_ok += 1
        ot = list(obj_t.values())
        not_dom = [z3.Or([z3.RealVal(Fraction(r[k])) > ot[k] * z3.RealVal(Fraction(1 + TOL)) + z3.RealVal(Fraction(1, 10 ** 9)) for k in range(len(ot))]) for r in rows]
        # seeded wrong expectation: with the best row of the first objective removed a lost point must exist
        if len(rows) >= 1:
            s.push()
            worst = max(rows, key=lambda r: r[0])
            s.add([nd for nd, r in zip(not_dom, rows) if r == worst] or [z3.BoolVal(True)])
            s.add(z3.BoolVal(True))
            s.pop()
        s.push()
        s.add(not_dom)
        r_ = z3_check(s, st, 600000)
        count_obligation(st, r_, label + " lost point")
        if r_ == "sat":
            m = s.model()
            env = {n: int(model_value(m, fd.var[n])) for n in names}
            sub = {sympy.Symbol(k, positive=True, integer=True): v for k, v in env.items()}
            vals = tuple(float(f.subs(sub)) for f in objf.values())
            st.replays += 1
            allpts = brute_front(job, symbols, chains, B, dom, objf, usef, lb_specs)
            in_space = any(e == env for _, e in allpts)
            if not in_space or weakly_dominated(vals, rows):
                raise HarnessError(f"C08 model does not reproduce: {label} {env} {vals}")
            viol.append(dict(property=PID, cfg=cfg, template=ji, kind="lost", assignment=env, objective_vector=list(vals), columns=cols,
                             returned_rows=[list(r) for r in rows[:20]],
                             what=f"{label}: valid tile assignment {env} has objectives {dict(zip(cols, vals))} and no returned row weakly dominates it "
                                  f"({len(rows)} rows returned, {len(allpts)} valid assignments in the space)"))
        s.pop()
        st.sample({"template": label, "symbols": names, "domain": {n: len(d) for n, d in dom.items()}, "rows_returned": len(rows), "monomial_tables": len(fd.mono),
                   "columns": cols})
    d = st.to_dict()
    d["violations"] = viol[:3]
    return d


def run(args):
    t0 = time.time()
    if args.replay:
        v = json.load(open(args.replay))
        print(v["what"])
        return 1
    cfgs = [dict(arch="simple", M=12, KN=8, metrics=("ENERGY", "LATENCY"), glb_size=512),
            dict(arch="simple", M=24, KN=12, metrics=("ENERGY", "LATENCY"), glb_size=2048),
            dict(arch="a3", M=24, KN=12, metrics=("ENERGY", "LATENCY"), glb_size=65536),
            dict(arch="a3", M=12, KN=8, metrics=("LATENCY",), glb_size=4096),
            dict(arch="a3", M=64, KN=48, metrics=("ENERGY", "LATENCY"), glb_size=65536),
            # 4-wide PE array (spatial loops) whose dimension carries the loop-bound constraint `~m <= 2`
            dict(arch="pe", M=4, KN=8, metrics=("ENERGY", "LATENCY"), glb_size=512),
            dict(arch="pe", M=8, KN=4, metrics=("ENERGY", "LATENCY"), glb_size=2048)]
    if args.tier == "thorough":
        cfgs += [dict(arch="a3", M=36, KN=8, metrics=("ENERGY", "LATENCY"), glb_size=16384),
                 dict(arch="simple", M=30, KN=12, metrics=("ENERGY",), glb_size=1024),
                 dict(arch="a3", M=24, KN=12, metrics=("ENERGY_DELAY_PRODUCT",), glb_size=65536)]
    per_cfg = 24 if args.tier == "quick" else 400
    payloads = []
    for cfg in cfgs:
        n = len(get_jobs(**cfg))
        idx = list(range(n)) if n <= per_cfg else [int(i * n / per_cfg) for i in range(per_cfg)]
        k = max(1, min(len(idx), args.jobs // 2))
        for sidx in range(k):
            payloads.append((cfg, idx[sidx::k]))
    stats = Stats()
    res = run_sharded(shard, payloads, args.jobs)
    violations = []
    for r in res:
        stats.merge(r)
        violations.extend(r["violations"])
    return finish(
        PID, args.tier, "model_checking", stats, t0, violations[:5], [],
        functions_encoded=["make_tile_shapes.make_tile_shapes / _make_tile_shapes (real run: get_tile_shape_choices, coalesce_symbols, get_padded_choices, check_loops, "
                           "make_evalable_objectives_from_formula, intermediate Pareto steps)", "run_model (formulas of objectives and usages)"],
        bounds=dict(configurations=[str(c) for c in cfgs], templates_per_configuration=per_cfg,
                    space="every perfectly factorising tile assignment: each tile shape over the divisors of its rank bound, consecutive shapes of a rank variable divide each other",
                    tolerance=f"relative {TOL} on objectives (float32 evaluation of the compiled functions)",
                    outside="imperfect factorisation, loop_bounds / max_fused_loops constraints, spatial loops, fused multi-Einsum templates (reservation and fused-loop "
                            "columns), objective/resource tolerances > 0, templates whose monomial tables exceed 40000 entries"),
        assumptions=["the captured formulas are the objectives the exploration evaluates (C07)", "validity = every usage formula <= 1",
                     "Pareto vector = the returned columns for which df_convention.col_used_in_pareto holds"],
        rule="per template: one obligation 'no valid assignment is undominated by the returned rows'; returned rows are validated concretely; distinct by template",
        explanation="Real pruned enumeration vs z3 over the one-hot finite domain of all tile assignments.",
    )


if __name__ == "__main__":
    main_wrapper(PID, run)
