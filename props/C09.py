"""C09 — symbolic sign and monotonicity verdicts hold at every point of the box (Route A).

The real geq_leq_zero / diff_geq_leq_zero are called (caches cleared) on
  (a) formulas emitted by the real model for mapping skeletons with symbolic tile shapes and
      concrete rank bounds/costs (what tile-shape exploration sees, ceilings included), and
  (b) a grammar of formulas over <= 3 positive integer symbols: sums, differences, products,
      quotients, ceiling(p/q), Max/Min, Heaviside, depth <= 3.
For every verdict other than UNKNOWN z3 is asked for an INTEGER point of the box at which the
formula (for the derivative verdict: the derivative expression the comparator itself judges,
diff(expand(f), s)) has the forbidden sign.  unsat = the verdict holds on the whole box."""
from __future__ import annotations

import json
import random
import time
from fractions import Fraction

import sympy
import z3

from lib.common import (HarnessError, Stats, count_obligation, finish, load_known_findings,
                        main_wrapper, run_sharded, seed, z3_check)
from lib.symx import model as M
from lib.symx.tr import Tr, Unsupported, model_value

PID = "C09"


def mts():
    import accelforge.mapper.FFM._make_pmappings.make_pmappings_from_templates.make_tile_shapes as m
    return m


def clear_caches():
    m = mts()
    for fn in (m.diff, m.diff_geq_leq_zero, m.function_range, m._compare_to_zero, m.geq_leq_zero):
        if hasattr(fn, "cache_clear"):
            fn.cache_clear()
    m._is_connected_cache.clear()


# ---------------------------------------------------------------------------------------------
def gen_formulas(n, rng):
    a, b, c = [sympy.Symbol(x, positive=True, integer=True) for x in "abc"]
    syms = [a, b, c]
    consts = [1, 2, 3, 4, 6, 12]

    def atom():
        return rng.choice(syms + syms + [sympy.Integer(rng.choice(consts))])

    def pos(d):
        """strictly positive on the box (denominators are drawn from here)"""
        if d == 0 or rng.random() < 0.25:
            return atom()
        k = rng.random()
        x, y = pos(d - 1), pos(d - 1)
        if k < 0.3:
            return x + y
        if k < 0.6:
            return x * y
        if k < 0.75:
            return x / y
        if k < 0.9:
            return sympy.ceiling(x / y)
        return sympy.Max(x, y) if k < 0.95 else sympy.Min(x, y)

    def expr(d):
        if d == 0 or rng.random() < 0.15:
            return atom()
        k = rng.random()
        x = expr(d - 1)
        y = pos(d - 1) if 0.52 <= k < 0.80 else expr(d - 1)
        if k < 0.2:
            return x + y
        if k < 0.32:
            return x - y
        if k < 0.52:
            return x * y
        if k < 0.67:
            return x / y
        if k < 0.80:
            return sympy.ceiling(x / y)
        if k < 0.88:
            return sympy.Max(x, y)
        return sympy.Min(x, y)
    out, seen = [], set()
    # hand-picked shapes the model is known to emit
    fixed = [a * sympy.ceiling(12 / a), a * sympy.ceiling(12 / a) - 12, sympy.ceiling(a / b) - a / b, 12 / a + a, sympy.Max(12 / a, a * b),
             sympy.Max(a, b) - a, sympy.Min(a, b) * c, a * b / c, (a + b * c + b) / 8192, 1 / a + 1 / (a * b), sympy.ceiling(12 / a) * sympy.ceiling(8 / b),
             a * b - 12, 12 - a, a - b]
    # low-degree polynomials / rational functions whose coefficients have mixed signs inside the box
    # (the slope in one symbol changes sign with the other): the range analysis has to order interval
    # end points correctly for them
    for c1 in (2, 3, 5):
        for c2 in (-3, 1, 3):
            fixed += [a * (b - c1) + c2, (a - c1) * (b - 2) + c2, a * b - c1 * a - 2 * b + c2, c * (a * (b - c1) + b * (b - 4) + c2),
                      (a - c1) / b + c2, sympy.Max(a - b, c - c1) + c2 - 1, sympy.Min(a * (b - c1), c2 * a)]
    for f in fixed:
        if sympy.srepr(f) in seen:
            continue
        out.append(f)
        seen.add(sympy.srepr(f))
    tries = 0
    while len(out) < n and tries < 50 * n:
        tries += 1
        try:
            f = expr(3)
        except (ValueError, ZeroDivisionError, TypeError):
            continue
        if not isinstance(f, sympy.Basic) or not f.free_symbols or sympy.srepr(f) in seen:
            continue
        if f.has(sympy.zoo, sympy.nan, sympy.oo):
            continue
        seen.add(sympy.srepr(f))
        out.append(f)
    return out[:n]


def model_formulas(tier):
    """Formulas of the real model with symbolic tile shapes only."""
    out = []
    fam = [("A2", "MM", 4), ("A3", "MM", 2), ("A2", "CONV1", 2)] if tier == "quick" else [("A2", "MM", 16), ("A3", "MM", 10), ("A2", "CONV1", 8), ("A2T", "MV", 6)]
    for arch, wl, n in fam:
        ename, tensors, outs, rvs = M.WORKLOADS[wl]
        bounds = dict(zip(rvs, [12, 8, 6]))
        for sk in M.gen_skeletons(arch, wl, n, seed() + 9):
            run = M.symbolic_run(arch, wl, sk, {}, {}, inject=False, bounds=bounds)
            if run.error:
                continue
            L = M.loops_of(sk)
            box = {}
            for k, i in enumerate(L):
                box[f"stride{k}"] = bounds[sk[i][1]]
            for col, v in list(run.df.items()) + list(run.usage.items()):
                e = sympy.sympify(v)
                if isinstance(e, sympy.Basic) and e.free_symbols:
                    out.append((f"{arch}/{wl} {M.sk_str(sk)} :: {col}", e, box))
    return out


# ---------------------------------------------------------------------------------------------
FORBIDDEN = {"ALWAYS_GEQ_THAN_ZERO": lambda t: t < 0, "ALWAYS_LEQ_THAN_ZERO": lambda t: t > 0, "ALWAYS_EQUAL_TO_ZERO": lambda t: t != 0}


def sign_ok(verdict, val):
    return {"ALWAYS_GEQ_THAN_ZERO": val >= 0, "ALWAYS_LEQ_THAN_ZERO": val <= 0, "ALWAYS_EQUAL_TO_ZERO": val == 0}[verdict]


def drop_ceil(e):
    return e.replace(lambda x: isinstance(x, (sympy.ceiling, sympy.floor)), lambda x: x.args[0])


def decide(expr, verdict, bounds, st, label):
    """z3: is there an integer point of the box with the forbidden sign?  Returns (result, point)."""
    tr = Tr()
    try:
        t = tr(expr)
    except Unsupported as e:
        return "unsupported", None
    s = z3.Solver()
    for sym, lo, hi in bounds:
        v = tr.var(sym)
        s.add(v >= lo, v <= hi)
    s.add(tr.constraints())
    # Heaviside terms come from differentiating Min/Max; at a tie (argument == 0) the derivative
    # does not exist, so tie points are not judged
    for h in expr.atoms(sympy.Heaviside):
        s.add(tr(h.args[0]) != 0)
    s.add(tr.constraints())
    s.add(FORBIDDEN[verdict](t))
    r = z3_check(s, st, 20000)
    if r == "unknown":
        # finite-domain case split on the symbol with the smallest range (each case is still decided by
        # the solver over the remaining symbols)
        sym, lo, hi = min(bounds, key=lambda b: b[2] - b[1])
        st.extra["case_splits"] = st.extra.get("case_splits", 0) + 1
        r = "unsat"
        for val in range(lo, hi + 1):
            s.push()
            s.add(tr.var(sym) == val)
            rp = z3_check(s, st, 20000)
            if rp == "sat":
                m = s.model()
                pt = {sy.name: int(model_value(m, tr.var(sy))) for sy, _, _ in bounds}
                s.pop()
                return "sat", pt
            s.pop()
            if rp != "unsat":
                r = "unknown"
        return r, None
    pt = None
    if r == "sat":
        m = s.model()
        pt = {sym.name: int(model_value(m, tr.var(sym))) for sym, lo, hi in bounds}
    return r, pt


def traced_relational_error(m, kind, f, s, bounds, st, label):
    """True iff, while the real comparator judges f again, sympy evaluates some relation `g >= 0` /
    `g <= 0` inside _compare_to_zero to a Boolean that z3 refutes on the box (identification of the
    known class `sympy-relational` by its mechanism, not by the shape of the formula)."""
    import signal
    import sys as _sys
    rec = []
    orig = {"__ge__": sympy.Expr.__ge__, "__le__": sympy.Expr.__le__}

    def mk(name):
        o = orig[name]

        def w(self, other):
            r = o(self, other)
            try:
                if _sys._getframe(1).f_code.co_name == "_compare_to_zero" and (r is sympy.true or r is sympy.false) and other == 0:
                    rec.append((self, name, r is sympy.true))
            except Exception:  # noqa
                pass
            return r
        return w
    sympy.Expr.__ge__, sympy.Expr.__le__ = mk("__ge__"), mk("__le__")
    try:
        clear_caches()
        signal.alarm(20)
        try:
            m.geq_leq_zero(f, bounds) if kind == "formula" else m.diff_geq_leq_zero(f, s, bounds)
        finally:
            signal.alarm(0)
    except Exception:  # noqa
        pass
    finally:
        sympy.Expr.__ge__, sympy.Expr.__le__ = orig["__ge__"], orig["__le__"]
        clear_caches()
    for g, name, claimed in rec:
        if not getattr(g, "free_symbols", None):
            continue
        # sympy claims (g >= 0) == claimed, resp. (g <= 0) == claimed, for ALL positive integers
        if name == "__ge__":
            verdict = "ALWAYS_GEQ_THAN_ZERO" if claimed else None
        else:
            verdict = "ALWAYS_LEQ_THAN_ZERO" if claimed else None
        if verdict is None:
            # a claimed `False` means "never >= 0" i.e. always < 0: refuted by a point with g >= 0
            tr = Tr()
            try:
                t = tr(g)
            except Unsupported:
                continue
            z = z3.Solver()
            for sym, lo, hi in bounds:
                v = tr.var(sym)
                z.add(v >= lo, v <= hi)
            z.add(tr.constraints())
            z.add(t >= 0 if name == "__ge__" else t <= 0)
            if z3_check(z, st, 20000) == "sat":
                return True
            continue
        r, _ = decide(g, verdict, bounds, st, label)
        if r == "sat":
            return True
    return False


def evaluate(expr, point):
    e = expr.subs({s: sympy.Integer(point[s.name]) for s in expr.free_symbols})
    e = sympy.nsimplify(e) if e.is_number else e
    return sympy.Rational(e) if e.is_Rational else e


class _Timeout(Exception):
    pass


def _alarm(signum, frame):
    raise _Timeout()


def process(label, f, bounds, st, out_viol, out_known, out_exc):
    import signal
    signal.signal(signal.SIGALRM, _alarm)
    m = mts()
    CR = m.ComparisonResult
    syms = [b[0] for b in bounds]
    jobs = [("formula", None, False)] + [("derivative", s, False) for s in syms]
    for kind, s, flag in jobs:
        clear_caches()
        try:
            signal.alarm(20)      # sympy's range analysis can run away on grammar formulas: skipped, counted
            try:
                if kind == "formula":
                    verdict = m.geq_leq_zero(f, bounds)
                    judged = f
                else:
                    verdict = m.diff_geq_leq_zero(f, s, bounds)
                    judged = m.diff(sympy.expand(f), s)
            finally:
                signal.alarm(0)
        except _Timeout:
            st.extra["comparator_timeouts_20s"] = st.extra.get("comparator_timeouts_20s", 0) + 1
            continue
        except (TypeError, ValueError, NotImplementedError, RecursionError) as e:
            st.extra["comparator_raised_documented"] = st.extra.get("comparator_raised_documented", 0) + 1
            continue
        except Exception as e:  # noqa
            out_exc.append(f"{type(e).__name__}: {str(e)[:80]} on {kind} of {f}")
            continue
        st.extra["verdicts_" + verdict.name] = st.extra.get("verdicts_" + verdict.name, 0) + 1
        if verdict == CR.UNKNOWN:
            continue
        r, pt = decide(judged, verdict.name, bounds, st, label)
        d = f"{kind}{'' if s is None else ' d/d' + s.name} of {f} on {[(b[0].name, b[1], b[2]) for b in bounds]} is {verdict.name}"
        if r == "unsupported":
            st.extra["untranslatable"] = st.extra.get("untranslatable", 0) + 1
            continue
        count_obligation(st, r, d)
        if len(st.samples) < 8:
            st.sample({"obligation": d, "result": r}, cap=8)
        if r == "sat":
            val = evaluate(judged, pt)
            st.replays += 1
            if not val.is_number or sign_ok(verdict.name, val):
                raise HarnessError(f"C09 model does not reproduce: {d} at {pt}: value {val}")
            rec = dict(property=PID, formula=sympy.srepr(f), formula_str=str(f), kind=kind, symbol=None if s is None else s.name,
                       bounds=[(b[0].name, b[1], b[2]) for b in bounds], verdict=verdict.name, point=pt, value=str(val),
                       what=f"{d} but its value at {pt} is {val}")
            # the comparator's documented approximation: ceilings are dropped before the range analysis.
            # If the verdict is right for the ceiling-free relaxation, this is the known class.
            if judged.has(sympy.ceiling) or judged.has(sympy.floor):
                r2, _ = decide(drop_ceil(judged), verdict.name, bounds, st, label)
                if r2 == "unsat":
                    rec["key"] = "ceiling-dropped"
                    out_known.append(rec)
                    continue
            # third known class: the comparator trusts sympy's own evaluation of `g >= 0` / `g <= 0`;
            # sympy 1.14 decides some relations over positive INTEGER symbols wrongly
            # (e.g. 3/(b*c) >= 2 -> True).  If sympy gives a definite answer for the judged
            # expression that the point contradicts, it is that class.
            try:
                g0 = drop_ceil(judged)
                ge, le = (g0 >= 0), (g0 <= 0)
                wrong = (ge is sympy.true and val < 0) or (le is sympy.true and val > 0) or (ge is sympy.false and val >= 0) or (le is sympy.false and val <= 0)
            except TypeError:
                wrong = False
            if not wrong:
                # the same mechanism deeper in the recursion (on a Heaviside partition, or on an end
                # point returned by function_range): re-run the comparator with Expr.__ge__/__le__
                # traced inside _compare_to_zero and let z3 judge every Boolean sympy returned there
                wrong = traced_relational_error(m, kind, f, s, bounds, st, label)
            if wrong:
                rec["key"] = "sympy-relational"
                out_known.append(rec)
                continue
            # second known class: the comparator evaluates a formula with several Heaviside terms
            # (derivatives of Min/Max) only with ALL of them 1 and ALL of them 0.  If the verdict is
            # right under those two substitutions this is that class.
            hs = drop_ceil(judged).atoms(sympy.Heaviside)
            if len(hs) >= 1:
                ok = True
                for val in (1, 0):
                    g = drop_ceil(judged).xreplace({h: sympy.Integer(val) for h in hs})
                    if g.free_symbols:
                        r3, _ = decide(g, verdict.name, bounds, st, label)
                    else:
                        r3 = "unsat" if sign_ok(verdict.name, g) else "sat"
                    ok &= (r3 == "unsat")
                if ok:
                    rec["key"] = "heaviside-partition"
                    out_known.append(rec)
                    continue
            out_viol.append(rec)


def shard(payload):
    items = payload
    st = Stats()
    viol, known, exc = [], [], []
    for label, f, bounds in items:
        st.instantiations += 1
        process(label, f, bounds, st, viol, known, exc)
    d = st.to_dict()
    d["violations"] = viol[:5]
    d["known"] = known[:5]
    d["n_known"] = len(known)
    d["exceptions"] = exc[:5]
    return d


def run(args):
    t0 = time.time()
    m = mts()
    if args.replay:
        v = json.load(open(args.replay))
        from sympy import Symbol, Integer, Rational, Add, Mul, Pow, ceiling, floor, Max, Min, Heaviside  # noqa
        f = eval(v["formula"])
        bounds = tuple((sympy.Symbol(n, positive=True, integer=True), lo, hi) for n, lo, hi in v["bounds"])
        clear_caches()
        if v["kind"] == "formula":
            verdict, judged = m.geq_leq_zero(f, bounds), f
        else:
            s = sympy.Symbol(v["symbol"], positive=True, integer=True)
            verdict, judged = m.diff_geq_leq_zero(f, s, bounds), m.diff(sympy.expand(f), s)
        val = evaluate(judged, v["point"])
        print("verdict", verdict.name, "value at", v["point"], "=", val)
        return 0 if verdict.name == "UNKNOWN" or sign_ok(verdict.name, val) else 1
    rng = random.Random(seed() + 9)
    n = 400 if args.tier == "quick" else 4000
    items = []
    his = [4, 6, 12] if args.tier == "quick" else [3, 4, 6, 8, 12, 16, 24]
    for f in gen_formulas(n, rng):
        syms = sorted(f.free_symbols, key=lambda s: s.name)
        hi = rng.choice(his)
        bounds = tuple((s, 1, rng.choice(his)) for s in syms)
        items.append((f"grammar {f}", f, bounds))
    for label, e, box in model_formulas(args.tier):
        e2 = M.canon(e)
        bounds = tuple((s, 1, box.get(s.name, 12)) for s in sorted(e2.free_symbols, key=lambda s: s.name))
        items.append((label, e2, bounds))
    nsh = max(1, args.jobs * 4)
    res = run_sharded(shard, [items[i::nsh] for i in range(nsh)], args.jobs)
    stats = Stats()
    violations, known_recs, excs, n_known = [], [], [], 0
    for r in res:
        stats.merge(r)
        violations.extend(r["violations"])
        known_recs.extend(r["known"])
        n_known += r["n_known"]
        excs.extend(r["exceptions"])
    stats.extra["comparator_unexpected_exceptions"] = excs[:10]
    stats.extra["known_class_hits"] = n_known
    known = []
    for key in ("ceiling-dropped", "heaviside-partition", "sympy-relational"):
        recs = [r for r in known_recs if r.get("key") == key]
        kf = [k for k in load_known_findings(PID) if k.get("key") == key]
        if recs:
            if kf:
                known.append(f"{kf[0]['what_fails']} [e.g. {recs[0]['what'][:160]}]")
            else:
                violations = recs + violations
    return finish(
        PID, args.tier, "model_checking", stats, t0, violations[:5], known,
        functions_encoded=["make_tile_shapes.geq_leq_zero", "diff_geq_leq_zero", "_compare_to_zero", "diff", "function_range",
                           "partition_heaviside", "_is_connected_cached (Min/Max cache)"],
        bounds=dict(formulas=len(items), grammar="depth<=3 over symbols a,b,c and constants {1,2,3,4,6,12}: + - * / ceiling Max Min (Heaviside arises from the derivatives)",
                    boxes=f"[1,hi] per symbol, hi in {his}", ties="points where a Heaviside argument (a Min/Max tie of the differentiated formula) is 0 are excluded", model_formulas="real run_model output columns for skeletons with symbolic tile shapes, bounds 12/8/6",
                    outside="terms_do_not_cross_zero=True (its precondition is a global property of the objective), boxes > 24, > 3 symbols in the grammar"),
        assumptions=["derivative verdicts are judged on the expression the comparator itself derives (sympy.diff of the expanded formula), at integer points",
                     "an exception escaping the comparator is not a verdict: reported as comparator_unexpected_exceptions, not as a violation"],
        rule="one obligation per non-UNKNOWN verdict (formula, and derivative per symbol); distinct by (formula, box, verdict kind)",
        explanation="Verdicts of the real comparator vs an integer point search by z3 over the whole box.",
    )


if __name__ == "__main__":
    main_wrapper(PID, run)
