"""C27 — recomputing component costs on a costed spec changes nothing (Route A).

Real code run on symbols: Spec.calculate_component_costs and Component.calculate_area /
calculate_leak_power / calculate_action_energy / calculate_action_throughput, called 1, 2 and 3
times in a row, with every cost field and every scale factor a positive real symbol.  z3 decides
that each field after call k+1 equals the field after call k, for all values."""
from __future__ import annotations

import itertools
import json
import time

import sympy
import z3

from lib.common import (HarnessError, Stats, count_obligation, finish, load_known_findings,
                        main_wrapper, run_sharded, seed, z3_check)
from lib.symx.archgen import build_arch, gen_trees, tree_str
from lib.symx.tr import Tr, model_value
from props.C26 import WORKLOAD, components

PID = "C27"

COMP_FIELDS = ["area", "leak_power", "area_scale", "leak_power_scale", "energy_scale", "throughput_scale",
               "n_parallel_instances"]
ACT_FIELDS = ["energy", "throughput", "energy_scale", "throughput_scale"]
SCALES = ["area_scale", "leak_power_scale", "energy_scale", "throughput_scale", "n_parallel_instances",
          "act.energy_scale", "act.throughput_scale"]
FLAGS = ["area", "energy", "throughput", "leak"]


def make_spec(src):
    from accelforge.frontend.spec import Spec
    from accelforge.frontend.workload import Workload
    if src[0] == "tree":
        return Spec(arch=build_arch(src[1]), workload=Workload(**WORKLOAD)), "E"
    import accelforge as af
    kind, arch, wl, jinja = src
    arch_p = {"simple": af.examples.arches.simple, "tpu_v4i": af.examples.arches.tpu_v4i,
              "toll": "/repo/tests/input_files/toll.arch.yaml"}[arch]
    wl_p = {"matmuls": af.examples.workloads.basic.matmuls, "toll": "/repo/tests/input_files/matmul_toll.workload.yaml"}[wl]
    spec = Spec.from_yaml(arch_p, wl_p, jinja_parse_data=jinja)
    return spec, spec.workload.einsums[0].name


ZERO_PATTERNS = ["none", "energy_first_action", "energy_last_action", "area", "leak_power"]


def inject(arch, symbolic_scales, valuation=None, zero="none"):
    """Replace cost fields by symbols (valuation None) or numbers (replay).  Scale kinds not in
    `symbolic_scales` are the literal 1 (the code's `!= 1` fast path).  `zero`: which cost fields
    are the literal 0 / inf instead (free actions, zero area and leak are common in the example
    architectures, and code that tests a cost for truthiness only shows on them)."""
    def val(name, is_scale_kind=None):
        if is_scale_kind is not None and is_scale_kind not in symbolic_scales:
            return 1
        if valuation is None:
            return sympy.Symbol(name, positive=True)
        return float(valuation.get(name, 1))
    for c in components(arch):
        c.area = 0 if zero == "area" else val(f"area_{c.name}")
        c.leak_power = 0 if zero == "leak_power" else val(f"leak_{c.name}")
        c.area_scale = val(f"as_{c.name}", "area_scale")
        c.leak_power_scale = val(f"ls_{c.name}", "leak_power_scale")
        c.energy_scale = val(f"es_{c.name}", "energy_scale")
        c.throughput_scale = val(f"ts_{c.name}", "throughput_scale")
        c.n_parallel_instances = val(f"np_{c.name}", "n_parallel_instances")
        for ai, a in enumerate(c.actions):
            a.energy = val(f"e_{c.name}_{a.name}")
            a.throughput = val(f"t_{c.name}_{a.name}")
            if (zero == "energy_first_action" and ai == 0) or (zero == "energy_last_action" and ai == len(c.actions) - 1 and len(c.actions) > 1):
                a.energy = 0
            if zero == "throughput_inf_first_action" and ai == 0:
                a.throughput = float("inf")
            a.energy_scale = val(f"aes_{c.name}_{a.name}", "act.energy_scale")
            a.throughput_scale = val(f"ats_{c.name}_{a.name}", "act.throughput_scale")


def snapshot(arch):
    out = {}
    for c in components(arch):
        out[(c.name, "area")] = c.area
        out[(c.name, "leak_power")] = c.leak_power
        out[(c.name, "total_area")] = c.total_area
        out[(c.name, "total_leak_power")] = c.total_leak_power
        for a in c.actions:
            out[(c.name, f"{a.name}.energy")] = a.energy
            out[(c.name, f"{a.name}.throughput")] = a.throughput
    return out


FIELD_FLAG = lambda f: ("area" if "area" in f else "leak" if "leak" in f else "energy" if f.endswith("energy") else "throughput")


def history_run(src, symbolic_scales, history, valuation=None, public=False, zero="none"):
    """history: list of flag-sets (each a frozenset of FLAGS).  Returns the snapshots after
    each call.  public=True drives the unevaluated spec (replay through the public API)."""
    spec, einsum = make_spec(src)
    if public:
        cur = spec
        inject(cur.arch, symbolic_scales, valuation, zero)
    else:
        cur = spec._spec_eval_expressions(einsum_name=einsum)
        inject(cur.arch, symbolic_scales, valuation, zero)
    snaps = []
    for flags in history:
        cur = cur.calculate_component_costs(einsum_name=einsum, **{f: (f in flags) for f in FLAGS})
        snaps.append(snapshot(cur.arch))
    return snaps


def obligations_for(snaps, history):
    """(description, before, after) for every field that had been computed before call k and is
    read again after call k."""
    obs = []
    computed = set()
    for k, flags in enumerate(history):
        if k > 0:
            for key in snaps[k]:
                fl = FIELD_FLAG(key[1])
                if fl in computed:
                    obs.append((f"{key[0]}.{key[1]} after call {k+1} == after call {k}", snaps[k - 1][key], snaps[k][key]))
        computed |= set(flags)
    return obs


def shard(payload):
    src, symbolic_scales, history, label, zero = payload
    st = Stats()
    st.instantiations = 1
    t0 = time.time()
    snaps = history_run(src, symbolic_scales, history, zero=zero)
    obs = obligations_for(snaps, history)
    st.encode_s += time.time() - t0
    tr = Tr()
    terms = [(d, tr(a), tr(b)) for d, a, b in obs]
    s = z3.Solver()
    s.add([v > 0 for v in tr.env.values()])
    if z3_check(s, st) != "sat":
        raise HarnessError("vacuous assumptions")
    st.vacuity_ok += 1
    # seeded wrong reference: 'after == 2*before' must be refuted for a symbolic field
    for d, a, b in terms:
        if not z3.is_rational_value(a) and not z3.is_int_value(a):
            s.push()
            s.add(b != 2 * a)
            if z3_check(s, st) != "sat":
                raise HarnessError("seeded wrong reference not refuted")
            st.mutants_refuted += 1
            s.pop()
            break
    bad = []
    for (d, a, b), (_, fa, fb) in zip(terms, obs):
        s.push()
        s.add(a != b)
        r = z3_check(s, st, timeout_ms=30000)
        count_obligation(st, r, f"{label} :: {d} :: {fa}", symbolic=isinstance(fa, sympy.Basic) and bool(getattr(fa, 'free_symbols', ())))
        if r == "sat":
            m = s.model()
            bad.append((d, {k: float(model_value(m, v)) for k, v in tr.env.items()}, str(fa), str(fb)))
        s.pop()
    if obs:
        st.sample({"instantiation": label, "obligation": obs[0][0], "before": str(obs[0][1]), "after": str(obs[0][2])})
    violations = []
    if bad:
        d, vals, fa, fb = bad[0]
        # replay through the public API on numbers
        snaps_c = history_run(src, symbolic_scales, history, valuation=vals, public=True, zero=zero)
        st.replays += 1
        diffs = []
        for dd, a, b in obligations_for(snaps_c, history):
            if a != b and abs(a - b) > 1e-9 * max(abs(a), abs(b), 1e-300):
                diffs.append(dict(field=dd, before=a, after=b))
        if not diffs:
            raise HarnessError(f"model for '{d}' does not reproduce through the public API: {vals}")
        kinds = sorted({f["field"].split(" ")[0].split(".")[-1] for f in diffs})
        violations.append(dict(property=PID, instantiation=label, src=src, symbolic_scales=sorted(symbolic_scales), zero=zero,
                               history=[sorted(h) for h in history], values=vals, failing=diffs[:12],
                               symbolic_before=fa, symbolic_after=fb,
                               what=f"repeated calculate_component_costs changes {kinds}"))
    out = st.to_dict()
    out["violations"] = violations
    return out


def instantiations(tier):
    srcs = [("yaml", "simple", "matmuls", {"N_EINSUMS": 1, "M": 4, "KN": 4}),
            ("yaml", "toll", "toll", {}),
            ("yaml", "tpu_v4i", "matmuls", {"N_EINSUMS": 1, "M": 4, "KN": 4})]
    trees = gen_trees(14 if tier == "quick" else 60, seed())
    srcs += [("tree", t) for t in (trees[4:8] + trees[12:14] if tier == "quick" else trees)]
    ALL = frozenset(FLAGS)
    scale_sets = [frozenset(SCALES), frozenset()] + [frozenset([k]) for k in SCALES]
    histories = [[ALL, ALL], [ALL, ALL, ALL]]
    if tier == "thorough":
        subs = [frozenset(c) for r in (1, 2, 3) for c in itertools.combinations(FLAGS, r)]
        histories += [[a, ALL] for a in subs] + [[ALL, a] for a in subs] + [[a, b, ALL] for a in subs[:4] for b in subs[4:8]]
    else:
        histories += [[frozenset(["area"]), ALL], [frozenset(["energy", "leak"]), ALL, frozenset(["throughput"])]]
    out = []
    for si, src in enumerate(srcs):
        for sc in scale_sets:
            for hi, h in enumerate(histories):
                name = src[1] if src[0] == "yaml" else tree_str(src[1])
                label = f"{name} | symbolic scales: {','.join(sorted(sc)) or 'none (all literal 1)'} | history: {[''.join(x[0] for x in sorted(f)) for f in h]}"
                out.append((src, sc, h, label, "none"))
        # literal-zero / inf cost patterns, all scales symbolic
        for z in ZERO_PATTERNS[1:]:
            for h in histories[:2]:
                out.append((src, frozenset(SCALES), h, f"{name} | all scales symbolic | literal {z} | history: {[''.join(x[0] for x in sorted(f)) for f in h]}", z))
    return out


def run(args):
    t0 = time.time()
    if args.replay:
        v = json.load(open(args.replay))
        src = tuple(v["src"]) if v["src"][0] == "yaml" else ("tree", v["src"][1])
        hist = [frozenset(h) for h in v["history"]]
        snaps = history_run(src, frozenset(v["symbolic_scales"]), hist, valuation=v["values"], public=True, zero=v.get("zero", "none"))
        bad = 0
        for d, a, b in obligations_for(snaps, hist):
            ok = a == b or abs(a - b) <= 1e-9 * max(abs(a), abs(b), 1e-300)
            bad += not ok
            print(("OK  " if ok else "DIFF"), d, a, b)
        return 1 if bad else 0
    inst = instantiations(args.tier)
    stats = Stats()
    res = run_sharded(shard, inst, args.jobs)
    violations = []
    for r in res:
        stats.merge(r)
        violations.extend(r["violations"])
    kf = load_known_findings(PID)
    known, remaining = [], []
    for v in violations:
        hit = [k for k in kf if k.get("key") and k["key"] in v["what"]]
        (known.append(hit[0]["what_fails"]) if hit else remaining.append(v))
    return finish(
        PID, args.tier, "model_checking", stats, t0, remaining[:5], known,
        functions_encoded=["Spec.calculate_component_costs", "Component.calculate_area", "Component.calculate_leak_power",
                           "Component.calculate_action_energy", "Component.calculate_action_throughput",
                           "Component._copy_for_component_modeling"],
        bounds=dict(instantiations=len(inst), call_histories="length 2 and 3; flag subsets of {area,energy,throughput,leak}",
                    architectures="examples/arches/simple, tpu_v4i, tests/input_files/toll.arch + generated trees",
                    symbolic="area, leak_power, action energy/throughput and all seven scale kinds: positive reals, unbounded",
                    scale_instantiations="all symbolic / all literal 1 / each kind alone symbolic",
                    literal_cost_patterns=ZERO_PATTERNS,
                    outside="costs obtained from hwcomponents models (component_class) - every cost is given explicitly"),
        assumptions=["hwcomponents models bypassed: every component carries explicit costs",
                     "only fields that an earlier call of the history computed are compared"],
        rule="one obligation per (instantiation, component field, call index k>=2): value after call k == value after call k-1; "
             "non-trivial when the field's formula has a free symbol",
        explanation="Repeated calls are executed on symbolic costs; z3 decides equality of each field between consecutive calls.",
    )


if __name__ == "__main__":
    main_wrapper(PID, run)
