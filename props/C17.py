"""C17 — the EDP column and the energy columns are what they say (Route A; fourth sentence only).

For every one of the 2^8 metric flag sets the real producer chain
    run_model(job with metrics=flags)  ->  _clean_energy_columns(dict)  ->  _apply_edp_columns(DataFrame)
is executed on symbols (the DataFrame has object dtype: pandas applies the Python operators cell
by cell, so the symbols survive).  z3 decides, for all tile shapes, rank bounds and costs:
    Total<SEP>energy_delay_product == (dynamic + leak) * latency
    Total<SEP>energy == dynamic + leak, and each total equals the all-metrics run's total,
and the presence/absence of each total column is compared with the flag set.
The three 'optimum' sentences of C17 compare whole mapper runs and are not decided here."""
from __future__ import annotations

import itertools
import json
import time

import sympy
import z3

from lib.common import (HarnessError, Stats, count_obligation, finish, main_wrapper, run_sharded, seed, z3_check)
from lib.symx import model as M
from lib.symx.tr import Tr, model_value, numeric_witness

PID = "C17"
SEP = "<SEP>"
T = lambda n: "Total" + SEP + n


def chain(arch, wl, sk, flags):
    """Returns (final columns dict name->sympy, error)."""
    import pandas as pd
    import accelforge.model.run_model as rm
    from unittest import mock
    from accelforge.frontend.mapper.metrics import Metrics
    from accelforge.mapper.FFM._join_pmappings.join_pmappings import _apply_edp_columns
    from accelforge.mapper.FFM._make_pmappings.make_pmappings_from_templates.make_tile_shapes import _clean_energy_columns
    from accelforge.util.parallel import set_n_parallel_jobs
    set_n_parallel_jobs(1)
    metrics = Metrics(0)
    for f in flags:
        metrics |= Metrics[f]
    ename, tensors, outs, rvs = M.WORKLOADS[wl]
    spec = M.build_spec(arch, wl, sk, {})
    spec.model.metrics = metrics
    real = rm.run_model
    cap = {}

    def wrapper(job, add_reservations=True):
        M.inject_symbols(job, list(tensors), {})
        cap["out"] = real(job, add_reservations)
        cap["metrics"] = job.metrics
        raise M._Abort()

    with mock.patch.object(rm, "run_model", wrapper):
        try:
            spec.evaluate_mapping()
        except M._Abort:
            pass
        except Exception as e:  # noqa
            return None, f"{type(e).__name__}: {e}"
    if "out" not in cap:
        return None, "run_model not reached"
    df = dict(cap["out"][1])
    _clean_energy_columns(df, cap["metrics"])
    frame = pd.DataFrame({k: pd.Series([v], dtype=object) for k, v in df.items()})
    frame = _apply_edp_columns(frame, cap["metrics"])
    return {c: frame[c].iloc[0] for c in frame.columns}, None


ALL = ["LATENCY", "ENERGY", "DYNAMIC_ENERGY", "LEAK_ENERGY", "RESOURCE_USAGE", "ACTIONS", "DETAILED_MEMORY_USAGE", "ENERGY_DELAY_PRODUCT"]


def shard(payload):
    arch, wl, sk, flagsets = payload
    st = Stats()
    viol = []
    base, err = chain(arch, wl, sk, ["LATENCY", "DYNAMIC_ENERGY", "LEAK_ENERGY"])
    if err:
        raise HarnessError(f"baseline chain failed: {err}")
    D, Lk, Lat = M.canon(base[T("dynamic_energy")]), M.canon(base[T("leak_energy")]), M.canon(base[T("latency")])
    for flags in flagsets:
        st.instantiations += 1
        label = f"{arch}/{wl} {M.sk_str(sk)} metrics={'|'.join(flags) or '0'}"
        cols, err = chain(arch, wl, sk, flags)
        if err:
            if not flags or not (set(flags) & {"LATENCY", "ENERGY", "DYNAMIC_ENERGY", "LEAK_ENERGY", "ENERGY_DELAY_PRODUCT"}):
                continue
            st.extra.setdefault("chain_failed", []).append(f"{label}: {err[:200]}")
            continue
        expect = {T("energy_delay_product"): ("ENERGY_DELAY_PRODUCT" in flags, (D + Lk) * Lat),
                  T("energy"): ("ENERGY" in flags, D + Lk),
                  T("latency"): ("LATENCY" in flags, Lat),
                  T("dynamic_energy"): ("DYNAMIC_ENERGY" in flags, D),
                  T("leak_energy"): ("LEAK_ENERGY" in flags, Lk)}
        tr = Tr()
        obs = []
        resid = {}
        for col, (present, val) in expect.items():
            if (col in cols) != present:
                obs.append((f"{col} present == {present}", z3.IntVal(1), z3.IntVal(0), None))
            elif present:
                resid[col] = sympy.expand(M.canon(cols[col]) - val)
                obs.append((f"{col} == its definition", tr(resid[col]), z3.IntVal(0), col))
            else:
                obs.append((f"{col} absent", z3.IntVal(0), z3.IntVal(0), None))
        s = z3.Solver()
        s.add([v > 0 for v in tr.env.values()])
        s.add(tr.constraints())
        if z3_check(s, st, 30000) != "sat":
            raise HarnessError("vacuous")
        st.vacuity_ok += 1
        for d, a, b, col in obs:
            s.push()
            s.add(a != b)
            r = z3_check(s, st, 20000)
            wit = None
            if r == "unknown" and col in resid:
                wit, _ = numeric_witness(resid[col])
                if wit:
                    r = "sat"
            count_obligation(st, r, label + d, symbolic=col is not None)
            if r == "sat":
                vals = wit or ({n: float(model_value(s.model(), v)) for n, v in tr.env.items()} if col else {})
                viol.append(dict(property=PID, arch=arch, workload=wl, skeleton=sk, flags=flags, obligation=d, values=vals,
                                 got=str(cols.get(col))[:300] if col else sorted(c for c in cols if c.startswith("Total")),
                                 what=f"metrics={'|'.join(flags)}: {d} fails"))
            s.pop()
        if "ENERGY_DELAY_PRODUCT" in flags and not any(v["flags"] == flags for v in viol):
            # seeded wrong definition: EDP == dynamic * latency (leak forgotten) must be refuted
            s.push()
            wrong_resid = sympy.expand(M.canon(cols[T("energy_delay_product")]) - D * Lat)
            s.add(tr(wrong_resid) != 0)
            if z3_check(s, st, 15000) != "sat" and numeric_witness(wrong_resid)[0] is None:
                raise HarnessError("seeded wrong EDP definition not refuted")
            st.mutants_refuted += 1
            s.pop()
        st.sample({"instantiation": label, "columns": sorted(c for c in cols if c.startswith("Total"))})
    # replay: numbers through the same chain (the real functions, numeric cells)
    out = []
    for v in viol[:3]:
        v["replayed"] = replay_numeric(v)
        if v["replayed"]:
            out.append(v)
        else:
            raise HarnessError(f"C17 counterexample does not reproduce numerically: {v['what']}")
    d = st.to_dict()
    d["violations"] = out
    return d


def replay_numeric(v):
    """EDP/energy on a numeric one-row frame through the real _clean_energy_columns/_apply_edp_columns."""
    import pandas as pd
    from accelforge.frontend.mapper.metrics import Metrics
    from accelforge.mapper.FFM._join_pmappings.join_pmappings import _apply_edp_columns
    from accelforge.mapper.FFM._make_pmappings.make_pmappings_from_templates.make_tile_shapes import _clean_energy_columns
    metrics = Metrics(0)
    for f in v["flags"]:
        metrics |= Metrics[f]
    df = {}
    if metrics.includes_latency():
        df[T("latency")] = 3.0
    if metrics.includes_dynamic_energy():
        df[T("dynamic_energy")] = 5.0
    if metrics.includes_leak_energy():
        df[T("leak_energy")] = 7.0
    _clean_energy_columns(df, metrics)
    fr = _apply_edp_columns(pd.DataFrame({k: [x] for k, x in df.items()}), metrics)
    exp = {T("energy_delay_product"): ("ENERGY_DELAY_PRODUCT" in v["flags"], 36.0), T("energy"): ("ENERGY" in v["flags"], 12.0),
           T("latency"): ("LATENCY" in v["flags"], 3.0), T("dynamic_energy"): ("DYNAMIC_ENERGY" in v["flags"], 5.0),
           T("leak_energy"): ("LEAK_ENERGY" in v["flags"], 7.0)}
    for col, (present, val) in exp.items():
        if (col in fr.columns) != present:
            return f"{col} present={col in fr.columns}, expected {present}"
        if present and abs(float(fr[col].iloc[0]) - val) > 1e-9:
            return f"{col}={fr[col].iloc[0]}, expected {val}"
    return None


def dtype_probe(st):
    """Machine-number side of 'EDP == energy x latency': the symbolic check reads integers as
    mathematical integers, numpy does not.  z3 picks integer-valued energy/latency totals from the
    region where the exact product leaves the int64 range (and one from the safe region); the real
    _apply_edp_columns runs on int64 and float64 frames holding them and is compared with the exact
    product."""
    import numpy as np
    import pandas as pd
    from accelforge.frontend.mapper.metrics import Metrics
    from accelforge.mapper.FFM._join_pmappings.join_pmappings import _apply_edp_columns
    out = []
    for region, lo in (("product >= 2^63", 2 ** 63), ("product < 2^62", 0)):
        e, l = z3.Int("e"), z3.Int("l")
        s = z3.Solver()
        s.add(e >= 2 ** 20, l >= 2 ** 20, e < 2 ** 41, l < 2 ** 41)
        s.add(e * l >= lo if lo else e * l < 2 ** 62)
        if z3_check(s, st, 30000) != "sat":
            raise HarnessError("dtype probe: no witness")
        ev, lv = s.model()[e].as_long(), s.model()[l].as_long()
        for dt in ("int64", "float64"):
            fr = pd.DataFrame({T("energy"): np.array([ev], dtype=dt), T("latency"): np.array([lv], dtype=dt)})
            fr = _apply_edp_columns(fr, Metrics.ENERGY | Metrics.LATENCY | Metrics.ENERGY_DELAY_PRODUCT)
            got = float(fr[T("energy_delay_product")].iloc[0])
            exact = ev * lv
            st.extra["dtype_probes"] = st.extra.get("dtype_probes", 0) + 1
            count_obligation(st, "unsat" if abs(got - exact) <= 1e-9 * exact else "sat", f"dtype probe {dt} {region}")
            st.queries += 1
            if abs(got - exact) > 1e-9 * exact:
                out.append(dict(property=PID, kind="dtype", dtype=dt, energy=ev, latency=lv, got=got, exact=str(exact), flags=["ENERGY", "LATENCY", "ENERGY_DELAY_PRODUCT"],
                                what=f"EDP column on a {dt} frame: energy={ev}, latency={lv} gives {got}, exact product {exact} ({region})"))
    return out


def run(args):
    t0 = time.time()
    if args.replay:
        v = json.load(open(args.replay))
        if v.get("kind") == "dtype":
            import numpy as np, pandas as pd
            from accelforge.frontend.mapper.metrics import Metrics
            from accelforge.mapper.FFM._join_pmappings.join_pmappings import _apply_edp_columns
            fr = pd.DataFrame({T("energy"): np.array([v["energy"]], dtype=v["dtype"]), T("latency"): np.array([v["latency"]], dtype=v["dtype"])})
            fr = _apply_edp_columns(fr, Metrics.ENERGY | Metrics.LATENCY | Metrics.ENERGY_DELAY_PRODUCT)
            got = float(fr[T("energy_delay_product")].iloc[0])
            print("EDP", got, "exact", v["energy"] * v["latency"])
            return 0 if abs(got - v["energy"] * v["latency"]) <= 1e-9 * v["energy"] * v["latency"] else 1
        r = replay_numeric(v)
        print(r or "holds")
        return 1 if r else 0
    flagsets = [[f for f, b in zip(ALL, bits) if b] for bits in itertools.product([0, 1], repeat=8)]
    sks = [("A2", "MM", M.gen_skeletons("A2", "MM", 3, seed())[1])]
    if args.tier == "thorough":
        sks += [("A3", "MM", M.gen_skeletons("A3", "MM", 3, seed())[2]), ("A2T", "MV", M.gen_skeletons("A2T", "MV", 2, seed())[0])]
    payloads = []
    for arch, wl, sk in sks:
        n = max(1, args.jobs)
        for i in range(n):
            payloads.append((arch, wl, sk, flagsets[i::n]))
    stats = Stats()
    violations = dtype_probe(stats)
    res = run_sharded(shard, payloads, args.jobs)
    for r in res:
        stats.merge(r)
        violations.extend(r["violations"])
    stats.unknown += len(stats.extra.get("chain_failed") or [])
    return finish(
        PID, args.tier, "model_checking", stats, t0, violations[:5], [],
        functions_encoded=["run_model (metric-dependent totals)", "_clean_energy_columns", "_apply_edp_columns", "Metrics.includes_*"],
        bounds=dict(metric_flag_sets=len(flagsets), skeletons=len(sks), symbolic="all tile shapes, rank bounds and costs (unbounded)",
                    outside="the three 'optimum' sentences of C17 (whole mapper runs); multi-row frames (the functions are column-wise)"),
        assumptions=["object-dtype DataFrame cells keep sympy symbols under pandas' cell-wise operators",
                     "integers are mathematical in the symbolic part; the int64/float64 behaviour of the EDP product is probed separately on solver-chosen magnitudes",
                     "flag sets that request no energy/latency total make evaluate_mapping stop early and are skipped"],
        rule="per (skeleton, flag set): one obligation per total column (presence and value); non-trivial when the column is present",
        explanation="Producer chain executed on symbols for all 256 metric flag sets.",
    )


if __name__ == "__main__":
    main_wrapper(PID, run)
