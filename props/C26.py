"""C26 — component totals count every instance of the component (Route A).

Real code executed on symbols: Spec.calculate_component_costs, ArchNode.iterate_hierarchically,
Component.calculate_area / calculate_leak_power, Arch.per_component_total_area /
per_component_total_leak_power / total_area / total_leak_power.  Per-instance area and leak power
of every component are positive real symbols; fan-outs are distinct concrete primes (they pass
through int()), the tree shape is an instantiation."""
from __future__ import annotations

import sys
import time

import sympy
import z3

from lib.common import (HarnessError, Stats, count_obligation, finish, load_known_findings,
                        main_wrapper, run_sharded, z3_check)
from lib.symx.archgen import build_arch, expected_fanouts, gen_trees, tree_str
from lib.symx.tr import Tr, model_value

PID = "C26"

WORKLOAD = dict(
    rank_sizes={"M": 4},
    bits_per_value={"All": 8},
    einsums=[dict(name="E", tensor_accesses=[dict(name="A", projection=["m"]),
                                              dict(name="B", projection=["m"], output=True)])],
)


def make_spec(tree):
    from accelforge.frontend.spec import Spec
    from accelforge.frontend.workload import Workload
    return Spec(arch=build_arch(tree), workload=Workload(**WORKLOAD))


def components(arch):
    from accelforge.frontend.arch import Component
    return list(arch.get_nodes_of_type(Component))


def symbolic_run(tree):
    """Run the real cost code with symbolic per-instance area/leak. Returns dict of formulas."""
    spec = make_spec(tree)
    s1 = spec._spec_eval_expressions(einsum_name="E")
    for c in components(s1.arch):
        c.area = sympy.Symbol(f"area_{c.name}", positive=True)
        c.leak_power = sympy.Symbol(f"leak_{c.name}", positive=True)
    r = s1.calculate_component_costs()
    out = {}
    for c in components(r.arch):
        out[c.name] = dict(area=c.area, leak=c.leak_power, total_area=c.total_area, total_leak=c.total_leak_power)
    arch = dict(per_area=dict(r.arch.per_component_total_area), per_leak=dict(r.arch.per_component_total_leak_power),
                total_area=r.arch.total_area, total_leak=r.arch.total_leak_power)
    return out, arch


def concrete_replay(tree, values):
    """Public API, numbers only: returns name -> (area, total_area, leak, total_leak)."""
    spec = make_spec(tree)
    for c in components(spec.arch):
        c.area = float(values.get(f"area_{c.name}", 1))
        c.leak_power = float(values.get(f"leak_{c.name}", 1))
    r = spec.calculate_component_costs()
    out = {c.name: (c.area, c.total_area, c.leak_power, c.total_leak_power) for c in components(r.arch)}
    return out, r.arch.total_area, r.arch.total_leak_power


def shard(payload):
    idx, tree = payload
    st = Stats()
    st.instantiations = 1
    violations = []
    t0 = time.time()
    comps, arch = symbolic_run(tree)
    exp = expected_fanouts(tree)
    if set(exp) != set(comps):
        raise HarnessError(f"tree {tree_str(tree)}: generator components {sorted(exp)} != arch components {sorted(comps)}")
    st.encode_s += time.time() - t0
    tr = Tr()
    s = z3.Solver()
    obligations = []
    for name, f in comps.items():
        n, why = exp[name]
        obligations.append((f"{name}.total_area == area * {n}  [{'*'.join(why) or '1'}]", f["total_area"], f["area"] * n))
        obligations.append((f"{name}.total_leak_power == leak_power * {n}", f["total_leak"], f["leak"] * n))
        obligations.append((f"per_component_total_area[{name}]", arch["per_area"][name], f["area"] * n))
        obligations.append((f"per_component_total_leak_power[{name}]", arch["per_leak"][name], f["leak"] * n))
    obligations.append(("arch.total_area == sum", arch["total_area"], sum(f["area"] * exp[k][0] for k, f in comps.items())))
    obligations.append(("arch.total_leak_power == sum", arch["total_leak"], sum(f["leak"] * exp[k][0] for k, f in comps.items())))
    terms = [(d, tr(a), tr(b)) for d, a, b in obligations]
    pos = [v > 0 for v in tr.env.values()]
    s.add(pos)
    # vacuity witness: the assumptions are satisfiable
    if z3_check(s, st) != "sat":
        raise HarnessError("vacuous assumptions")
    st.vacuity_ok += 1
    # seeded wrong reference: dropping one fan-out from the expected product must be refuted
    for name, f in comps.items():
        n, why = exp[name]
        if n > 1:
            s.push()
            s.add(tr(f["total_area"]) != tr(f["area"]) * (n + 1))
            if z3_check(s, st) == "sat":
                st.mutants_refuted += 1
            else:
                raise HarnessError("seeded wrong reference not refuted")
            s.pop()
            break
    bad_names = []
    for d, a, b in terms:
        s.push()
        s.add(a != b)
        r = z3_check(s, st, timeout_ms=20000)
        count_obligation(st, r, f"{tree_str(tree)} :: {d}")
        if r == "sat":
            m = s.model()
            vals = {k: float(model_value(m, v)) for k, v in tr.env.items()}
            bad_names.append((d, vals))
        s.pop()
    st.sample({"tree": tree_str(tree), "obligation": obligations[0][0], "model_formula": str(obligations[0][1]),
               "reference": str(obligations[0][2])})
    if bad_names:
        # replay through the public API with numbers
        d, vals = bad_names[0]
        rep, ta, tl = concrete_replay(tree, vals)
        st.replays += 1
        wrong = []
        for name, (a, tot_a, l, tot_l) in rep.items():
            n = exp[name][0]
            if abs(tot_a - a * n) > 1e-9 * max(1, abs(a * n)) or abs(tot_l - l * n) > 1e-9 * max(1, abs(l * n)):
                wrong.append(dict(component=name, area=a, total_area=tot_a, expected_instances=n,
                                  fanouts_counted=exp[name][1], leak_power=l, total_leak_power=tot_l))
        if not wrong:
            raise HarnessError(f"model for {d} does not reproduce on the real code: {vals}")
        violations.append(dict(property=PID, tree=tree_str(tree), tree_raw=tree, values=vals, failing=wrong,
                               what=f"total_area/total_leak_power != per-instance x instances for {[w['component'] for w in wrong]}",
                               how_to_replay="./check C26 --replay <this file>"))
    d = st.to_dict()
    d["violations"] = violations
    return d


def classify(v):
    """Key of a violation for known_findings.json: which structural feature is miscounted."""
    return None


def run(args):
    t0 = time.time()
    if args.replay:
        import json
        v = json.load(open(args.replay))
        rep, ta, tl = concrete_replay(v["tree_raw"], v["values"])
        exp = expected_fanouts(v["tree_raw"])
        ok = True
        for name, (a, tot_a, l, tot_l) in rep.items():
            n = exp[name][0]
            good = abs(tot_a - a * n) <= 1e-9 * max(1, abs(a * n))
            print(name, "area", a, "total", tot_a, "expected", a * n, "OK" if good else "MISMATCH")
            ok &= good
        return 0 if ok else 1
    n = 60 if args.tier == "quick" else 600
    from lib.common import seed
    trees = gen_trees(n, seed(), max_depth=4)
    stats = Stats()
    res = run_sharded(shard, list(enumerate(trees)), args.jobs)
    violations = []
    for r in res:
        stats.merge(r)
        violations.extend(r["violations"])
    known = []
    kf = load_known_findings(PID)
    remaining = []
    for v in violations:
        key = None
        for k in kf:
            if k.get("key") and k["key"] in v["what"]:
                key = k
        if key:
            known.append(key["what_fails"])
        else:
            remaining.append(v)
    return finish(
        PID, args.tier, "model_checking", stats, t0, remaining[:5], known,
        functions_encoded=["Spec.calculate_component_costs", "ArchNode.iterate_hierarchically",
                           "Component.calculate_area", "Component.calculate_leak_power",
                           "Arch.per_component_total_area", "Arch.per_component_total_leak_power",
                           "Arch.total_area", "Arch.total_leak_power", "Spatialable.get_fanout"],
        bounds=dict(trees=len(trees), max_depth=4, node_kinds=["Memory", "Toll", "Container", "Compute", "Fork", "Hierarchical"],
                    fanouts="distinct concrete primes (<=97), 0-2 spatial dims per node",
                    symbolic="per-instance area and leak power of every component: positive reals, unbounded",
                    outside="Array/Network nodes; fan-outs as symbols (they pass through int()); scale factors (C27)"),
        assumptions=["fan-outs are concrete (distinct primes, so a wrong ancestor set changes the product)",
                     "expected instance count is computed by the generator from its own tree, not by accelforge",
                     "floats read as exact rationals"],
        rule="one obligation per (tree, component, total field) plus the two arch totals; an obligation is non-trivial "
             "when it mentions a symbolic area/leak; distinct = distinct (tree, obligation) text",
        explanation="For every tree the real cost code runs once with symbolic per-instance costs; z3 decides "
                    "total == per-instance * prod(fan-outs on path incl. own) for all positive costs.",
    )


if __name__ == "__main__":
    main_wrapper(PID, run)
