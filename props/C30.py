"""C30 — network transfer costs match route enumeration (Route A, z3 terms passed directly).

The real MeshTopologyModel / AllToAllTopologyModel.per_loop_transfer_cost (and multicast_cost,
unicast_cost, arithmetic_sum) are called with z3 terms for shape_repeats (n), last_fanout (stride)
and volume and a non-distributed source; the returned total_cost / max_traffic terms are compared
with a link-by-link routing reference built here."""
from __future__ import annotations

import json
import time

import z3

from lib.common import (HarnessError, Stats, count_obligation, finish, load_known_findings,
                        main_wrapper, run_sharded, z3_check)
from lib.symx.tr import model_value
from lib.symx.znum import Z, explore, term

PID = "C30"


class NoDist:
    """Non-distributed source (the contract of the property): physical fan-out 1 in every dim."""

    def _get_physical_fanout_along(self, d, default=1):
        return 1


def real_cost(topology, relevant, n, st, vol):
    from accelforge.frontend._workload_isl._symbolic import Irrelevant, Relevant
    from accelforge.model._looptree.reuse.symbolic._network import get_topology_model
    rel = Relevant("r") if relevant else Irrelevant()
    return get_topology_model(topology).per_loop_transfer_cost(
        rel, shape_repeats=n, last_fanout=st, volume=vol, src_component=NoDist(), dim_name="X")


# ---------------------------------------------------------------------------------------------
# concrete oracle: route every value, count link traversals
# ---------------------------------------------------------------------------------------------
def route_concrete(topology, relevant, n, st, vol):
    """Returns (total hops*volume, max per-link traffic).  Destination i sits at coordinate i*st,
    the source is co-located with destination 0."""
    links = {}
    total = 0
    if topology == "mesh":
        if relevant:       # distinct values: destination i's value walks links 0..i*st-1
            for i in range(n):
                for p in range(i * st):
                    links[p] = links.get(p, 0) + vol
                    total += vol
        else:              # one shared value: every link up to the farthest destination, once
            for p in range((n - 1) * st):
                links[p] = links.get(p, 0) + vol
                total += vol
    else:                  # all-to-all: source uplink + one downlink per other destination
        for i in range(1, n):
            total += vol   # one switch traversal per delivery
            links[("down", i)] = links.get(("down", i), 0) + vol
            if relevant:
                links["up"] = links.get("up", 0) + vol
            else:
                links["up"] = vol      # replicated by the switch: the uplink carries it once
    return total, max(links.values(), default=0)


# ---------------------------------------------------------------------------------------------
# symbolic reference
# ---------------------------------------------------------------------------------------------
def route_symbolic(topology, relevant, n, st, vol, NMAX, SMAX):
    cons = []
    if topology == "mesh":
        nlinks = (NMAX - 1) * SMAX
        if relevant:
            total = z3.Sum([z3.If(i < n, i * z3.ToReal(st) * vol, 0) for i in range(NMAX)])
            traffic = [z3.Sum([z3.If(z3.And(i < n, i * st > p), vol, 0) for i in range(1, NMAX)]) for p in range(nlinks)]
        else:
            total = z3.Sum([z3.If(p < (n - 1) * st, vol, 0) for p in range(nlinks)])
            traffic = [z3.If(p < (n - 1) * st, vol, z3.RealVal(0)) for p in range(nlinks)]
    else:
        total = z3.Sum([z3.If(i < n, vol, 0) for i in range(1, NMAX)])
        down = [z3.If(i < n, vol, z3.RealVal(0)) for i in range(1, NMAX)]
        if relevant:
            up = z3.Sum([z3.If(i < n, vol, 0) for i in range(1, NMAX)])
        else:
            up = z3.If(n > 1, vol, z3.RealVal(0))
        traffic = down + [up]
    mx = z3.Real("max_link_traffic")
    cons += [mx >= t for t in traffic]
    cons.append(z3.Or([mx == t for t in traffic]))
    return total, mx, cons


def shard(payload):
    topology, relevant, what, NMAX, SMAX, nlo, nhi, exclude_n1_multicast, stc = payload
    st_ = Stats()
    st_.instantiations = 1
    t0 = time.time()
    n, vol = z3.Int("n"), z3.Real("vol")
    # the stride is case-split into its finite domain (one shard per value, passed to the real code
    # as a plain int): products of two symbolic integers make z3's non-linear integer arithmetic
    # time out, n*const does not.  n and volume are symbolic (lib/symx/znum.py: the real code's
    # arithmetic is recorded as z3 terms, data-dependent branches fork paths).
    st = z3.IntVal(stc)
    pre = [n >= nlo, n <= nhi, vol > 0]
    paths = explore(lambda: real_cost(topology, relevant, Z(n), stc, Z(vol)), pre)
    total, mx, cons = route_symbolic(topology, relevant, n, st, vol, NMAX, SMAX)
    st_.encode_s += time.time() - t0
    label = f"{topology} {'unicast' if relevant else 'multicast'} {what} n in [{nlo},{nhi}] stride={stc}"
    violations, known = [], []
    r = "unsat"
    st_.extra["paths"] = st_.extra.get("paths", 0) + len(paths)
    for conds, c in paths:
        model_v, ref_v = (term(c.total_cost), total) if what == "total_hops" else (term(c.max_traffic), mx)
        s = z3.Solver()
        s.add(pre)
        s.add(cons)
        s.add(conds)
        if z3_check(s, st_, 60000) != "sat":
            raise HarnessError(f"vacuous path: {label}")
        st_.vacuity_ok += 1
        # seeded wrong reference (one extra delivery) must be refuted
        s.push()
        s.add(n <= nlo + 2)          # any witness will do: keep the refutation query small
        s.add(model_v != ref_v + vol)
        if z3_check(s, st_, 300000) != "sat":
            raise HarnessError(f"seeded wrong reference not refuted: {label}")
        st_.mutants_refuted += 1
        s.pop()
        s.push()
        if exclude_n1_multicast and not relevant and what == "max_traffic":
            s.add(n >= 2)
        s.add(model_v != ref_v)
        r = z3_check(s, st_, 900000)
        count_obligation(st_, r, label + str(model_v) + str(conds))
        st_.sample({"obligation": label, "path_condition": str(conds), "model_term": str(model_v)[:300],
                    "reference": "link-by-link routing, sum/max over guarded destinations"})
        if r == "sat":
            m = s.model()
            cn, cv = int(model_value(m, n)), model_value(m, vol)
            cs = stc
            cvf = float(cv)
            rc = real_cost(topology, relevant, cn, cs, cvf)
            rt, rm = route_concrete(topology, relevant, cn, cs, cvf)
            st_.replays += 1
            got = rc.total_cost if what == "total_hops" else rc.max_traffic
            exp = rt if what == "total_hops" else rm
            if abs(float(got) - exp) <= 1e-9 * max(1.0, abs(exp)):
                raise HarnessError(f"model does not reproduce: {label} n={cn} stride={cs} vol={cvf}: real {got} == routed {exp}")
            violations.append(dict(property=PID, topology=topology, relevant=relevant, what=what, n=cn, stride=cs, volume=cvf,
                                   reported=float(got), routed=exp,
                                   what_fails=f"{topology} {'unicast' if relevant else 'multicast'} {what}: reported {got}, routing gives {exp} at n={cn}, stride={cs}, volume={cvf}"))
        s.pop()
    d = st_.to_dict()
    d["violations"] = violations
    d["extra"] = {"per_obligation_s": [f"{label}: {time.time() - t0:.1f}s {r}"]}
    return d


def n1_multicast_probe(st_):
    """The known-finding class: a one-destination multicast reports max_traffic = volume although
    no link is used.  Checked separately (concretely decided by the solver on n = 1) so the
    main obligations can exclude it and still report any other violation."""
    out = []
    for topology in ("mesh", "all_to_all"):
        n, st, vol = z3.Int("n"), z3.Int("stride"), z3.Real("vol")
        paths = explore(lambda: real_cost(topology, False, Z(n), Z(st), Z(vol)), [n == 1, st >= 1, st <= 8, vol > 0])
        s = z3.Solver()
        s.add(n == 1, st >= 1, st <= 8, vol > 0, z3.Or([z3.And(conds + [term(c.max_traffic) != 0]) for conds, c in paths]))
        r = z3_check(s, st_, 60000)
        count_obligation(st_, r, f"{topology} multicast n=1 max_traffic == 0")
        if r == "sat":
            m = s.model()
            cs, cv = int(model_value(m, st)), float(model_value(m, vol))
            rc = real_cost(topology, False, 1, cs, cv)
            rt, rm = route_concrete(topology, False, 1, cs, cv)
            st_.replays += 1
            if float(rc.max_traffic) != rm:
                out.append(dict(property=PID, topology=topology, relevant=False, what="max_traffic", n=1, stride=cs, volume=cv,
                                reported=float(rc.max_traffic), routed=rm, key="multicast:n==1:max_traffic",
                                what_fails=f"{topology} multicast max_traffic: reported {rc.max_traffic}, routing gives {rm} at n=1 (single destination, no link used)"))
        elif r != "unsat":
            raise HarnessError("n=1 probe unknown")
    return out


def run(args):
    t0 = time.time()
    if args.replay:
        v = json.load(open(args.replay))
        rc = real_cost(v["topology"], v["relevant"], v["n"], v["stride"], v["volume"])
        rt, rm = route_concrete(v["topology"], v["relevant"], v["n"], v["stride"], v["volume"])
        got = rc.total_cost if v["what"] == "total_hops" else rc.max_traffic
        exp = rt if v["what"] == "total_hops" else rm
        print("reported", got, "routed", exp)
        return 0 if abs(float(got) - exp) <= 1e-9 * max(1.0, abs(exp)) else 1
    NMAX, SMAX = (32, 8)
    kf = load_known_findings(PID)
    n1_known = [k for k in kf if k.get("key") == "multicast:n==1:max_traffic"]
    stats = Stats()
    n1 = n1_multicast_probe(stats)
    payloads = []
    # shards: split the fan-out range to use the cores; thorough uses finer obligations too
    if args.tier == "thorough":
        NMAX, SMAX = 48, 12
    for topology in ("mesh", "all_to_all"):
        for relevant in (False, True):
            for what in ("total_hops", "max_traffic"):
                for stc in range(1, SMAX + 1):
                    payloads.append((topology, relevant, what, NMAX, SMAX, 1, NMAX, bool(n1), stc))
    res = run_sharded(shard, payloads, args.jobs)
    violations = []
    for r in res:
        stats.merge(r)
        violations.extend(r["violations"])
    known = []
    if n1:
        if n1_known:
            known += [v["what_fails"] for v in n1]
        else:
            violations = n1 + violations
    return finish(
        PID, args.tier, "model_checking", stats, t0, violations[:5], known,
        functions_encoded=["MeshTopologyModel.per_loop_transfer_cost", "AllToAllTopologyModel.per_loop_transfer_cost",
                           "multicast_cost", "unicast_cost", "arithmetic_sum", "get_topology_model"],
        bounds=dict(fanout_n=f"1..{NMAX} (symbolic integer)", stride=f"1..{SMAX} (finite domain, one query per value)", volume="positive real, unbounded",
                    topologies=["mesh", "all_to_all"], relevancy=["Irrelevant (multicast)", "Relevant (unicast)"],
                    outside="distributed sources, PartiallyRelevant loops (NotImplementedError), max_hops (not in the property)"),
        assumptions=["source is non-distributed (_get_physical_fanout_along == 1) and co-located with destination 0",
                     "destination i sits at coordinate i*stride; mesh routes are straight lines from the source",
                     "all-to-all: one uplink from the source to the switch, one downlink per destination"],
        rule="one obligation per (topology, relevancy, quantity, fan-out range shard): reported term != routed term must be unsat",
        explanation="The real cost functions are called on z3 terms; the result is compared with guarded link-by-link routing sums.",
    )


if __name__ == "__main__":
    main_wrapper(PID, run)
