"""C28 — result breakdowns aggregate consistently to the totals (Route A on an object-dtype frame).

The column set of REAL results (evaluate_mapping on 1-3 Einsum specs, all metrics) is kept, every
numeric cell of one row is replaced by a fresh non-negative symbol, and the real accessors
Mappings.energy / actions / latency / resource_usage run for every combination of their per_*
flags (two stubs: output formatting `_coerce_numeric` -> identity, `np.maximum` -> cell-wise Max).
z3 decides, for all cell values:
   sum(energy(flags).values()) == sum of all energy cells         (15 flag sets) == energy()
   sum(actions(flags).values()) == sum of all action cells         (8 flag sets)
   latency() == sum over Einsums of max over components; per_einsum / per_component variants
   resource_usage()[m] == max over m's reservation cells
The clauses 'equals the Total column' need the producer's invariant Total == sum of parts: proven
for a single Einsum by C05's identities, validated numerically here on the real rows."""
from __future__ import annotations

import itertools
import json
import numbers
import time
from unittest import mock

import sympy
import z3

from lib.common import (HarnessError, Stats, count_obligation, finish, main_wrapper, run_sharded, seed, z3_check)
from lib.symx.tr import Tr, model_value

PID = "C28"
SEP = "<SEP>"


def real_result(n_einsums, mapping):
    import accelforge as af
    from accelforge.frontend.spec import Spec
    from accelforge.frontend.mapper.metrics import Metrics
    from accelforge.util.parallel import set_n_parallel_jobs
    set_n_parallel_jobs(1)
    mp = {"unfused": af.examples.mappings.unfused_matmuls_to_simple, "fused": af.examples.mappings.fused_matmuls_to_simple}[mapping]
    spec = Spec.from_yaml(af.examples.arches.simple, af.examples.workloads.basic.matmuls, mp,
                          jinja_parse_data={"N_EINSUMS": n_einsums, "M": 8, "KN": 8})
    spec.model.metrics = Metrics.all_metrics()
    # non-trivial leak so that leak columns exist with non-zero values
    for c in spec.arch.nodes:
        if hasattr(c, "leak_power"):
            c.leak_power = 0.5
    return spec.evaluate_mapping()


def symbolise(res, values=None, zero_cols=()):
    import pandas as pd
    cells, row = {}, {}
    for c in res.data.columns:
        v = res.data[c].iloc[0]
        if isinstance(v, numbers.Number) and not isinstance(v, bool):
            if c in zero_cols:
                s = 0 if values is None else 0.0
            elif values is None:
                s = sympy.Symbol("c%d" % len(cells), nonnegative=True)
            else:
                s = float(values.get("c%d" % len(cells), 0.0))
            cells["c%d" % len(cells)] = c
            row[c] = s
        else:
            row[c] = v
    dtype = object if values is None else None
    frame = pd.DataFrame({k: pd.Series([v], dtype=object if (values is None or not isinstance(v, float)) else float) for k, v in row.items()})
    return res._update(data=frame), cells, row


def smax(a, b):
    import pandas as pd
    f = lambda x, y: sympy.Max(x, y)
    if hasattr(a, "iloc") or hasattr(b, "iloc"):
        la = list(a) if hasattr(a, "iloc") else [a]
        lb = list(b) if hasattr(b, "iloc") else [b]
        if len(la) != len(lb):
            la = la * len(lb) if len(la) == 1 else la
            lb = lb * len(la) if len(lb) == 1 else lb
        return pd.Series([f(x, y) for x, y in zip(la, lb)], dtype=object)
    return f(a, b)


class NPshim:
    maximum = staticmethod(smax)

    def __getattr__(self, k):
        import numpy as np
        return getattr(np, k)


def accessor_outputs(sym):
    """All accessor/flag combinations on a (symbolic or numeric) Mappings."""
    out = {}
    for flags in itertools.product([False, True], repeat=4):
        out[("energy", flags)] = sym.energy(*flags)
    for flags in itertools.product([False, True], repeat=3):
        out[("actions", flags)] = sym.actions(*flags)
    for flags in itertools.product([False, True], repeat=2):
        out[("latency", flags)] = sym.latency(*flags)
    out[("resource_usage", ())] = sym.resource_usage()
    return out


def expected(row, einsums):
    """Independent definitions from the column names."""
    ecells, acells, lat, resv = [], [], {}, {}
    for col, v in row.items():
        p = col.split(SEP)
        if len(p) >= 2 and p[0] in einsums and p[1] == "energy":
            ecells.append((p, v))
        if len(p) >= 2 and p[0] in einsums and p[1] == "action":
            acells.append((p, v))
        if len(p) == 3 and p[0] in einsums and p[1] == "latency":
            lat[(p[0], p[2])] = v
        if p[0] == "reservation":
            resv.setdefault(p[1], []).append(v)
    return ecells, acells, lat, resv


def total(x):
    if isinstance(x, dict):
        return sum(x.values())
    return x


def Max(*a):
    return sympy.Max(*a) if len(a) > 1 else a[0]


def build_obligations(outs, row, einsums):
    ecells, acells, lat, resv = expected(row, einsums)
    E = sum(v for p, v in ecells)
    A = sum(v for p, v in acells)
    obs = []
    for (name, flags), val in outs.items():
        if name == "energy":
            obs.append((f"sum(energy{flags}) == sum of energy cells", total(val), E))
            if isinstance(val, dict) and flags == (True, True, True, True):
                for p, v in ecells:
                    key = (p[0], p[2], p[3], p[4]) if len(p) == 5 else (p[0], p[2], None, p[3])
                    if key not in val and (p[0], p[2], "None", p[3]) in val:
                        key = (p[0], p[2], "None", p[3])
                    obs.append((f"energy(all flags)[{key}] == its cell", val.get(key, sympy.Integer(0)), v))
        elif name == "actions":
            obs.append((f"sum(actions{flags}) == sum of action cells", total(val), A))
        elif name == "latency":
            pe, pc = flags
            if not pe and not pc:
                obs.append(("latency() == sum_e max_c", val, sum(Max(*[v for (e, c), v in lat.items() if e == en]) for en in einsums)))
            elif pe and not pc:
                for en in einsums:
                    obs.append((f"latency(per_einsum)[{en}] == max_c", val[en], Max(*[v for (e, c), v in lat.items() if e == en])))
            elif pc and not pe:
                comps = sorted({c for (e, c) in lat})
                for cn in comps:
                    obs.append((f"latency(per_component)[{cn}] == sum_e", val[cn], sum(v for (e, c), v in lat.items() if c == cn)))
            else:
                for k, v in lat.items():
                    obs.append((f"latency(per_einsum, per_component)[{k}] == its cell", val[k], v))
        else:
            for m, vs in resv.items():
                obs.append((f"resource_usage()[{m}] == max of its reservation cells", val[m], Max(*vs)))
    return obs


def shard(payload):
    import accelforge.mapper.FFM.mappings as MM
    n_einsums, mapping = payload
    st = Stats()
    st.instantiations = 1
    label = f"matmuls x{n_einsums} ({mapping})"
    res = real_result(n_einsums, mapping)
    einsums = list(res.einsum_names)
    sym, cells, row = symbolise(res)
    t0 = time.time()
    with mock.patch.object(MM, "_coerce_numeric", lambda x: x), mock.patch.object(MM, "np", NPshim()):
        outs = accessor_outputs(sym)
    obs = build_obligations(outs, row, einsums)
    tr = Tr()
    terms = [(d, tr(sympy.expand(sympy.sympify(a) - sympy.sympify(b)))) for d, a, b in obs]
    st.encode_s += time.time() - t0
    s = z3.Solver()
    s.add([v >= 0 for v in tr.env.values()])
    if z3_check(s, st, 30000) != "sat":
        raise HarnessError("vacuous")
    st.vacuity_ok += 1
    viol = []
    for d, t in terms:
        s.push()
        s.add(t != 0)
        r = z3_check(s, st, 60000)
        count_obligation(st, r, label + d)
        if r == "sat":
            m = s.model()
            viol.append((d, {n: float(model_value(m, v)) for n, v in tr.env.items()}))
        s.pop()
    base_viol = list(viol)
    # seeded wrong expectation: 'latency() == max over everything' must be refuted with >= 2 Einsums
    if n_einsums >= 2:
        _, _, lat, _ = expected(row, einsums)
        s.push()
        s.add(tr(sympy.sympify(outs[("latency", (False, False))]) - Max(*lat.values())) != 0)
        if z3_check(s, st, 30000) != "sat":
            raise HarnessError("seeded wrong expectation not refuted")
        st.mutants_refuted += 1
        s.pop()
    # ---- derived result sets: the drop_* helpers remove only zero-valued columns, so every total is
    # preserved.  Instantiated with one component's dynamic cells literally 0 (leak symbolic / zero).
    comps = sorted({c.split(SEP)[2] for c in row if len(c.split(SEP)) >= 3 and c.split(SEP)[1] in ("energy", "latency", "action") and c.split(SEP)[0] in einsums})
    for X in comps:
        for leak_zero in (False, True):
            zc = set()
            for c in row:
                p = c.split(SEP)
                if len(p) >= 3 and p[0] in einsums and p[2] == X and p[1] in ("energy", "latency", "action"):
                    if p[-1] == "leak" and not leak_zero:
                        continue
                    zc.add(c)
            symz, cellsz, rowz = symbolise(res, zero_cols=zc)
            with mock.patch.object(MM, "_coerce_numeric", lambda x: x), mock.patch.object(MM, "np", NPshim()):
                try:
                    derived = {"drop_components_with_zero_energy_and_latency": symz.drop_components_with_zero_energy_and_latency(),
                               "drop_zeros": symz.drop_zeros()}
                    outs_d = {k: (d.energy(), d.latency(), total(d.actions())) for k, d in derived.items()}
                except Exception as e:  # noqa
                    raise HarnessError(f"derived result set failed on symbols: {type(e).__name__}: {e}")
            ecz, acz, latz, _ = expected(rowz, einsums)
            E0 = sum(v for p, v in ecz)
            A0 = sum(v for p, v in acz)
            L0 = sum(Max(*[v for (e, c), v in latz.items() if e == en]) for en in einsums)
            for k, (e1, l1, a1) in outs_d.items():
                tag = f"{X} dynamic cells 0, leak {'0' if leak_zero else 'symbolic'}"
                obs.append((f"after {k} [{tag}]: energy() unchanged", e1, E0))
                obs.append((f"after {k} [{tag}]: latency() unchanged", l1, L0))
                obs.append((f"after {k} [{tag}]: total actions unchanged", a1, A0))
    terms = [(d, tr(sympy.expand(sympy.sympify(a) - sympy.sympify(b)))) for d, a, b in obs]
    s = z3.Solver()
    s.add([v >= 0 for v in tr.env.values()])
    viol = []
    for d, t in terms:
        if not d.startswith("after "):
            continue
        s.push()
        s.add(t != 0)
        r = z3_check(s, st, 60000)
        count_obligation(st, r, label + d)
        if r == "sat":
            m = s.model()
            viol.append((d, {n: float(model_value(m, v)) for n, v in tr.env.items()}))
        s.pop()
    derived_viol = viol
    st.sample({"instantiation": label, "columns": len(row), "symbolic_cells": len(cells), "obligation": obs[0][0],
               "energy()": str(outs[("energy", (False,) * 4)])[:200]})
    # concrete validation on the real row: totals columns (producer invariant) and all identities
    num = accessor_outputs(res)
    rrow = {c: res.data[c].iloc[0] for c in res.data.columns}
    bad = []
    for d, a, b in build_obligations(num, rrow, einsums):
        if abs(float(a) - float(b)) > 1e-6 * max(1.0, abs(float(b))):
            bad.append((d, float(a), float(b)))
    for name, acc in (("Total" + SEP + "energy", num[("energy", (False,) * 4)]), ("Total" + SEP + "latency", num[("latency", (False, False))])):
        if name in rrow and abs(float(acc) - float(rrow[name])) > 1e-5 * max(1.0, abs(float(rrow[name]))):
            bad.append((f"accessor == {name} column", float(acc), float(rrow[name])))
    st.extra["traces_validated_against_impl"] = 1
    out = []
    for d, a, b in bad[:3]:
        out.append(dict(property=PID, n_einsums=n_einsums, mapping=mapping, obligation=d, values={}, accessor=a, expected=b,
                        what=f"{label}: {d}: accessor {a} vs {b} on the real result row"))
    for d, vals in base_viol[:3]:
        v = replay(n_einsums, mapping, d, vals)
        if v is None:
            raise HarnessError(f"C28 model for '{d}' does not reproduce numerically")
        out.append(v)
    for d, vals in derived_viol[:3]:
        v = replay_derived(n_einsums, mapping, d, vals)
        if v is None:
            raise HarnessError(f"C28 model for '{d}' does not reproduce numerically")
        out.append(v)
    dd = st.to_dict()
    dd["violations"] = out
    return dd


def replay(n_einsums, mapping, d, vals):
    res = real_result(n_einsums, mapping)
    einsums = list(res.einsum_names)
    numres, cells, row = symbolise(res, values=vals)
    outs = accessor_outputs(numres)
    for dd, a, b in build_obligations(outs, row, einsums):
        if dd == d and abs(float(a) - float(b)) > 1e-9 * max(1.0, abs(float(b))):
            return dict(property=PID, n_einsums=n_einsums, mapping=mapping, obligation=d, values=vals, accessor=float(a), expected=float(b),
                        what=f"matmuls x{n_einsums} ({mapping}): {d}: accessor gives {float(a)}, cells give {float(b)}")
    return None


def replay_derived(n_einsums, mapping, d, vals):
    """numeric: component X's dynamic cells 0, other cells from the model; real drop helper, real accessors."""
    import re
    m = re.match(r"after (\w+) \[(\w+) dynamic cells 0, leak (0|symbolic)\]: (\w+)", d)
    helper, X, leak, what = m.group(1), m.group(2), m.group(3), m.group(4)
    res = real_result(n_einsums, mapping)
    einsums = list(res.einsum_names)
    zc = set()
    for c in res.data.columns:
        p = c.split(SEP)
        if len(p) >= 3 and p[0] in einsums and p[2] == X and p[1] in ("energy", "latency", "action"):
            if p[-1] == "leak" and leak != "0":
                continue
            zc.add(c)
    numres, cells, row = symbolise(res, values={k: (v if v else 1.0) for k, v in vals.items()}, zero_cols=zc)
    ecz, acz, latz, _ = expected(row, einsums)
    d0 = getattr(numres, helper)()
    got = {"energy": d0.energy(), "latency": d0.latency(), "total": total(d0.actions())}[what]
    exp = {"energy": sum(v for p, v in ecz), "total": sum(v for p, v in acz),
           "latency": sum(max(v for (e, c), v in latz.items() if e == en) for en in einsums)}[what]
    if abs(float(got) - float(exp)) > 1e-9 * max(1.0, abs(float(exp))):
        return dict(property=PID, n_einsums=n_einsums, mapping=mapping, obligation=d, values=vals, accessor=float(got), expected=float(exp), derived=True,
                    what=f"matmuls x{n_einsums} ({mapping}): {d}: {float(got)} vs {float(exp)}")
    return None


def producer_shard(payload):
    """'equals the Total column' for one Einsum: on the symbolic run_model output (n_instances
    symbolic) Total latency == max over the per-component latency columns and Total energy == sum of
    the energy columns - the invariant the accessors' totals rest on."""
    from lib.symx import model as M
    arch, wl, n = payload
    st = Stats()
    viol = []
    Nw = sympy.Symbol("N_workload", positive=True, integer=True)
    Ne = sympy.Symbol("N_einsum", positive=True, integer=True)
    for sk in M.gen_skeletons(arch, wl, n, seed() + 28):
        run = M.symbolic_run(arch, wl, sk, {}, {}, inst=(Nw, Ne))
        if run.error:
            st.extra.setdefault("symbolic_execution_failed", []).append(run.error[:100])
            continue
        st.instantiations += 1
        df = run.df
        lat = [M.canon(v) for c, v in df.items() if c.startswith("latency" + SEP)]
        en = [M.canon(v) for c, v in df.items() if c.startswith("energy" + SEP)]
        obs = [("Total latency == max of latency columns", M.canon(df["Total" + SEP + "latency"]), Max(*lat)),
               ("Total dynamic+leak energy == sum of energy columns", M.canon(df["Total" + SEP + "dynamic_energy"]) + M.canon(df["Total" + SEP + "leak_energy"]), sum(en))]
        tr = Tr()
        s = z3.Solver()
        def norm(e):
            for k in (M.canon(Nw), M.canon(Ne)):
                e = M.pull_positive_factor(e, k)
            return e
        terms = [(d, sympy.expand(norm(a) - norm(b))) for d, a, b in obs]
        zt = [(d, tr(t), t) for d, t in terms]
        s.add([v > 0 for v in tr.env.values()])
        s.add(tr.constraints())
        for d, t, raw in zt:
            s.push()
            s.add(t != 0)
            r = z3_check(s, st, 30000)
            if r == "unknown":
                from lib.symx.tr import numeric_witness
                w, _ = numeric_witness(raw)
                r = "sat" if w else r
            count_obligation(st, r, f"{arch}/{wl} {M.sk_str(sk)} {d}")
            if r == "sat":
                viol.append(dict(property=PID, producer=True, arch=arch, workload=wl, skeleton=sk, obligation=d,
                                 what=f"producer invariant: {d} fails for {M.sk_str(sk)} with symbolic n_instances"))
            s.pop()
    out = []
    for v in viol[:2]:
        # replay: numbers through the public API, accessor vs Total column
        from props import C05
        sk = v["skeleton"]
        row, _ = C05.concrete_run(v["arch"], v["workload"], sk, {}, {}, {i: 2 for i in M.loops_of(sk)}, {}, wl_opts=dict(n_instances=2, einsum_n_instances=3))
        lat = [float(x) for c, x in row.items() if c.split(SEP)[1:2] == ["latency"] and len(c.split(SEP)) == 3]
        en = [float(x) for c, x in row.items() if c.split(SEP)[1:2] == ["energy"]]
        ok = abs(max(lat) - float(row["Total" + SEP + "latency"])) <= 1e-6 * max(lat) and abs(sum(en) - float(row["Total" + SEP + "energy"])) <= 1e-6 * sum(en)
        if ok:
            raise HarnessError(f"producer invariant violation does not reproduce: {v['what']}")
        v["replayed"] = dict(max_latency_cols=max(lat), total_latency=float(row["Total" + SEP + "latency"]), sum_energy_cols=sum(en), total_energy=float(row["Total" + SEP + "energy"]))
        out.append(v)
    d = st.to_dict()
    d["violations"] = out
    return d


def mapper_front_validation(cfg):
    """VALIDATION, not the deciding step: one real map_workload_to_arch run whose result holds several
    mappings (a two-objective front, mappings with different column sets: a tensor bypassing a
    memory has no column there).  For every row every per_* breakdown of energy() must sum to the
    row's Total<SEP>energy and latency() must equal Total<SEP>latency — the producer invariant
    'Total == sum of parts' on rows assembled from several detailed re-evaluations."""
    import itertools as _it
    import math
    import accelforge as af
    from accelforge.frontend.spec import Spec
    from accelforge.frontend.mapper.metrics import Metrics
    from accelforge.util.parallel import set_n_parallel_jobs
    set_n_parallel_jobs(1)
    st = Stats()
    spec = Spec.from_yaml(af.examples.arches.simple, af.examples.workloads.basic.matmuls, jinja_parse_data=dict(cfg))
    spec.mapper.metrics = Metrics.ENERGY | Metrics.LATENCY
    r = spec.map_workload_to_arch(print_progress=False)
    viol = []
    st.extra["mapper_front_rows_validated"] = len(r)
    for i in range(len(r)):
        m = r[i]
        row = m.data.iloc[0]
        e_col, l_col = float(row["Total" + SEP + "energy"]), float(row["Total" + SEP + "latency"])
        for flags in _it.product([False, True], repeat=4):
            kw = dict(zip(("per_einsum", "per_component", "per_tensor", "per_action"), flags))
            v = m.energy(**kw)
            tot = sum(float(x) for x in v.values()) if isinstance(v, dict) else float(v)
            if not math.isclose(tot, e_col, rel_tol=1e-6, abs_tol=1e-9):
                viol.append(dict(property=PID, producer=True, cfg=dict(cfg), row=i, flags=kw,
                                 what=f"map_workload_to_arch({dict(cfg)}, ENERGY|LATENCY): row {i} of {len(r)}: energy({[k for k, f in kw.items() if f]}) sums to {tot}, Total<SEP>energy is {e_col}",
                                 replayed="real mapper run"))
                break
        lat = float(m.latency())
        if not math.isclose(lat, l_col, rel_tol=1e-6, abs_tol=1e-9):
            viol.append(dict(property=PID, producer=True, cfg=dict(cfg), row=i, what=f"map_workload_to_arch({dict(cfg)}): row {i}: latency() = {lat}, Total<SEP>latency is {l_col}", replayed="real mapper run"))
    d = st.to_dict()
    d["violations"] = viol[:2]
    return d


def run(args):
    t0 = time.time()
    if args.replay:
        v = json.load(open(args.replay))
        if v.get("producer"):
            print(v["what"], v.get("replayed"))
            return 1
        if v.get("derived"):
            r = replay_derived(v["n_einsums"], v["mapping"], v["obligation"], v["values"])
            print(r["what"] if r else "holds")
            return 1 if r else 0
        r = replay(v["n_einsums"], v["mapping"], v["obligation"], v["values"]) if v.get("values") else v
        print(r["what"] if r else "holds")
        return 1 if r else 0
    payloads = [(1, "unfused"), (2, "unfused"), (2, "fused"), (3, "unfused")]
    if args.tier == "thorough":
        payloads += [(3, "fused"), (4, "unfused")]
    stats = Stats()
    res = run_sharded(shard, payloads, args.jobs)
    violations = []
    for r in res:
        stats.merge(r)
        violations.extend(r["violations"])
    prod = [("A2", "MM", 4), ("A3", "MM", 3), ("A2T", "MV", 3)] if args.tier == "quick" else [("A2", "MM", 20), ("A3", "MM", 16), ("A2T", "MV", 12), ("A3T", "MM", 12)]
    for r in run_sharded(producer_shard, prod, args.jobs):
        stats.merge(r)
        violations.extend(r["violations"])
    fronts = [(("N_EINSUMS", 1), ("M", 8), ("KN", 4), ("GlobalBufferSize", 256), ("GlobalBufferThroughput", 2), ("MainMemoryEnergy", 10))]
    if args.tier == "thorough":
        fronts.append((("N_EINSUMS", 2), ("M", 8), ("KN", 4), ("GlobalBufferSize", 512), ("GlobalBufferThroughput", 2), ("MainMemoryEnergy", 10)))
    for r in run_sharded(mapper_front_validation, fronts, args.jobs):
        stats.merge(r)
        violations.extend(r["violations"])
    stats.unknown += len(stats.extra.get("symbolic_execution_failed") or [])
    return finish(
        PID, args.tier, "model_checking", stats, t0, violations[:5], [],
        functions_encoded=["Mappings.drop_components_with_zero_energy_and_latency", "Mappings.drop_zeros", "run_model (totals, n_instances)", "Mappings.energy", "Mappings.actions", "Mappings.latency", "Mappings.resource_usage", "Mappings.access",
                           "Mappings._get_cols", "Mappings._get_keys_of_length", "Mappings.sum", "_series2list"],
        bounds=dict(results=[f"{n} Einsum(s), {m}" for n, m in payloads], rows=1, cells="every numeric cell a non-negative real symbol (unbounded)",
                    flag_sets="energy 16, actions 8, latency 4",
                    outside="multi-row frames for the symbolic part (the accessors are row-wise), per_compute(); 'accessor == Total column' on rows assembled by the mapper "
                            "(map_workload_to_arch concatenates per-mapping frames with different column sets: pandas, not encodable) is VALIDATED on one/two real mapper fronts, "
                            "not decided (producer invariant; single-Einsum case proven by C05)"),
        assumptions=["_coerce_numeric (output formatting) stubbed by identity; np.maximum stubbed by cell-wise Max",
                     "expected values are derived from the column names by this check, not by Mappings.access"],
        rule="one obligation per accessor/flag-set identity (and per key for the fully keyed variants); distinct by text",
        explanation="Real accessors executed on symbolic cells of real result column sets.",
    )


if __name__ == "__main__":
    main_wrapper(PID, run)
