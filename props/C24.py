"""C24 — workload geometry: stride/halo and dense tile occupancy (Route A; sympy-backed part).

The real get_stride_and_halo_of_einsum and compute_dense_tile_occupancy / compute_rank_occupancy
are run with SYMBOLIC shapes X, Y for projections  a*x + b*y + c  (a, b in 0..3, c in 0..2 are the
structure) built into real Workload objects; z3 decides for all X, Y in [1, 6]:
   stride(rank, x) == a, stride(rank, y) == b                       (step of the projection)
   halo(rank, x)   == extent added by the other variable = b*(Y-1)   (and symmetrically)
   occupancy       == max - min + 1 of the projection over the box   (dense bounding interval)
   for a, b in {0, 1}: occupancy == number of DISTINCT projected points (every point of the interval
                        is hit; expanded over the <= 36 iteration points)
The rank-variable bounds, operation counts and tensor sizes come from islpy (C) and are not decided."""
from __future__ import annotations

import itertools
import json
import time

import sympy
import z3

from lib.common import (HarnessError, Stats, count_obligation, finish, load_known_findings, main_wrapper, run_sharded, z3_check)
from lib.symx.tr import Tr, model_value

PID = "C24"
NMAX = 6


def workload_for(a, b, c, two_ranks=False):
    from accelforge.frontend.workload import Workload
    terms = []
    if a:
        terms.append(f"{a}*x" if a != 1 else "x")
    if b:
        terms.append(f"{b}*y" if b != 1 else "y")
    if c or not terms:
        terms.append(str(c))
    expr = " + ".join(terms)
    proj = {"R": expr}
    if two_ranks:
        proj["S"] = "y"
    wl = Workload(rank_sizes={"X": 4, "Y": 4} if False else {}, iteration_space_shape={"x": "0 <= x < 4", "y": "0 <= y < 4"}, bits_per_value={"All": 8},
                  einsums=[dict(name="E", tensor_accesses=[dict(name="T", projection=proj), dict(name="O", projection=["x", "y"], output=True)])])
    return wl, expr


def real_values(a, b, c, two_ranks, shapes):
    """shapes: {'x': X, 'y': Y} sympy symbols or ints.  Returns dict of the real functions' outputs."""
    from accelforge.frontend._workload_isl._symbolic import (compute_dense_tile_occupancy, get_projection_expr,
                                                             get_stride_and_halo_of_einsum)
    wl, expr = workload_for(a, b, c, two_ranks)
    sh = get_stride_and_halo_of_einsum("E", wl, rank_variable_bounds=dict(shapes))["T"]
    proj = get_projection_expr(wl.einsums["E"], "T")
    occ = compute_dense_tile_occupancy(proj, dict(shapes))
    return dict(stride_halo={f"{k[0]}|{k[1]}": v for k, v in sh.items()}, occupancy=occ, expr=expr)


def brute(a, b, c, two_ranks, X, Y):
    pts = set()
    for x in range(X):
        for y in range(Y):
            pts.add((a * x + b * y + c, y) if two_ranks else (a * x + b * y + c,))
    vals = [p[0] for p in pts]
    dense = (max(vals) - min(vals) + 1) * (Y if two_ranks else 1)
    return dict(distinct=len(pts), dense=dense, halo_x=b * (Y - 1), halo_y=a * (X - 1))


def shard(payload):
    a, b, c, two = payload
    st = Stats()
    st.instantiations = 1
    X, Y = sympy.Symbol("X", positive=True, integer=True), sympy.Symbol("Y", positive=True, integer=True)
    label = f"R: {a}*x + {b}*y + {c}" + (" ; S: y" if two else "")
    t0 = time.time()
    rv = real_values(a, b, c, two, {"x": X, "y": Y})
    st.encode_s += time.time() - t0
    tr = Tr()
    zx, zy = tr.var(X), tr.var(Y)
    s = z3.Solver()
    s.add(zx >= 1, zx <= NMAX, zy >= 1, zy <= NMAX)
    obs = []
    sh = rv["stride_halo"]
    for var, coef, other_coef, other in (("x", a, b, zy), ("y", b, a, zx)):
        key = f"R|{var}"
        if key not in sh:
            if coef != 0:
                obs.append((f"stride/halo entry for (R,{var}) exists", z3.IntVal(1), z3.IntVal(0)))
            continue
        stride, halo = sh[key]
        obs.append((f"stride(R,{var}) == {coef}", tr(sympy.sympify(stride)), z3.IntVal(coef)))
        obs.append((f"halo(R,{var}) == {other_coef}*(other-1)", tr(sympy.sympify(halo)), other_coef * (other - 1)))
    occ = tr(sympy.sympify(rv["occupancy"]))
    dense = (a * (zx - 1) + b * (zy - 1) + 1) * (zy if two else 1)
    obs.append(("occupancy == size of the dense bounding interval", occ, dense))
    if a in (0, 1) and b in (0, 1) and not two:
        # number of distinct projected points, by expansion over the iteration points
        vmax = a * (NMAX - 1) + b * (NMAX - 1) + c
        hits = []
        for v in range(0, vmax + 1):
            if two:
                for yy in range(NMAX):
                    hits.append(z3.If(z3.Or([z3.And(xx < zx, yy < zy) for xx in range(NMAX) if a * xx + b * yy + c == v] or [z3.BoolVal(False)]), 1, 0))
            else:
                hits.append(z3.If(z3.Or([z3.And(xx < zx, yy < zy) for xx in range(NMAX) for yy in range(NMAX) if a * xx + b * yy + c == v] or [z3.BoolVal(False)]), 1, 0))
        obs.append(("occupancy == number of distinct projected points", occ, z3.Sum(hits)))
    if z3_check(s, st, 30000) != "sat":
        raise HarnessError("vacuous")
    st.vacuity_ok += 1
    viol = []
    for d, lhs, rhs in obs:
        s.push()
        s.add(lhs != rhs)
        r = z3_check(s, st, 60000)
        count_obligation(st, r, label + " :: " + d)
        if r == "sat":
            m = s.model()
            xv, yv = int(model_value(m, zx)), int(model_value(m, zy))
            # replay on numbers
            cv = real_values(a, b, c, two, {"x": xv, "y": yv})
            bf = brute(a, b, c, two, xv, yv)
            st.replays += 1
            got_occ = int(cv["occupancy"])
            exp_occ = bf["distinct"] if (a in (0, 1) and b in (0, 1) and not two) else bf["dense"]
            halos = {k: int(v[1]) for k, v in cv["stride_halo"].items()}
            bad = []
            if got_occ != exp_occ:
                bad.append(f"occupancy {got_occ} != {exp_occ}")
            if "R|x" in halos and halos["R|x"] != bf["halo_x"]:
                bad.append(f"halo(R,x) {halos['R|x']} != {bf['halo_x']}")
            if "R|y" in halos and halos["R|y"] != bf["halo_y"]:
                bad.append(f"halo(R,y) {halos['R|y']} != {bf['halo_y']}")
            strides = {k: int(v[0]) for k, v in cv["stride_halo"].items()}
            if strides.get("R|x", a) != a or strides.get("R|y", b) != b:
                bad.append(f"strides {strides} != ({a},{b})")
            if not bad:
                raise HarnessError(f"C24 model does not reproduce: {label} {d} at X={xv}, Y={yv}")
            viol.append(dict(property=PID, a=a, b=b, c=c, two_ranks=two, X=xv, Y=yv, obligation=d, mismatches=bad,
                             key="constant-offset" if c != 0 else None,
                             what=f"projection {label} with shapes X={xv}, Y={yv}: {'; '.join(bad)}"))
        s.pop()
    st.sample({"instantiation": label, "occupancy_formula": str(rv["occupancy"]), "stride_halo": {k: [str(x) for x in v] for k, v in sh.items()}})
    d = st.to_dict()
    d["violations"] = viol[:2]
    return d


def run(args):
    t0 = time.time()
    if args.replay:
        v = json.load(open(args.replay))
        cv = real_values(v["a"], v["b"], v["c"], v["two_ranks"], {"x": v["X"], "y": v["Y"]})
        bf = brute(v["a"], v["b"], v["c"], v["two_ranks"], v["X"], v["Y"])
        print("real:", cv["occupancy"], cv["stride_halo"], "enumerated:", bf)
        exp = bf["distinct"] if (v["a"] in (0, 1) and v["b"] in (0, 1) and not v["two_ranks"]) else bf["dense"]
        ok = int(cv["occupancy"]) == exp and all(int(h[1]) == (bf["halo_x"] if k.endswith("x") else bf["halo_y"]) for k, h in cv["stride_halo"].items() if k.startswith("R|"))
        return 0 if ok else 1
    combos = [(a, b, c, two) for a in range(4) for b in range(4) for c in range(3) for two in (False, True) if (a or b)]
    if args.tier == "quick":
        combos = [x for x in combos if x[0] <= 2 and x[1] <= 2 and not (x[3] and x[2] == 2)]
    stats = Stats()
    res = run_sharded(shard, combos, args.jobs)
    violations = []
    for r in res:
        stats.merge(r)
        violations.extend(r["violations"])
    kf = load_known_findings(PID)
    known, remaining = [], []
    for v in violations:
        hit = [k for k in kf if k.get("key") and k["key"] == v.get("key")]
        (known.append(hit[0]["what_fails"]) if hit else remaining.append(v))
    return finish(
        PID, args.tier, "model_checking", stats, t0, remaining[:5], known,
        functions_encoded=["_workload_isl._symbolic.get_stride_and_halo_of_einsum", "compute_rank_occupancy", "compute_dense_tile_occupancy", "get_projection_expr"],
        bounds=dict(projections=f"a*x + b*y + c, a,b in 0..{max(c_[0] for c_ in combos)}, c in 0..2, optionally a second rank 'y' ({len(combos)} structures)",
                    shapes=f"X, Y in [1, {NMAX}] (symbolic integers)",
                    outside="rank-variable bounds, operation counts and tensor sizes (islpy), negative coefficients, more than two rank variables per rank"),
        assumptions=["'extra extent' (halo) of a rank variable = extent contributed by the other variables of the projection, constants excluded",
                     "for a, b in {0,1} the dense bounding interval and the set of projected points coincide; for larger steps the occupancy is compared with the dense interval"],
        rule="per projection structure: stride, halo, dense occupancy (and distinct-point count for unit steps); distinct by (structure, obligation)",
        explanation="Real geometry helpers on symbolic shapes vs interval/enumeration reference.",
    )


if __name__ == "__main__":
    main_wrapper(PID, run)
