"""C31 — Toll components pass data through without storing it (Route A; model-level clauses).

Same machinery as C05 (real evaluate_mapping/run_model on symbols vs the loop-nest executor),
instantiated on the architectures with a Toll and on EVERY per-tensor direction assignment the
family size allows; the Toll-specific obligations are
  - no write action and no occupancy/reservation column for the Toll (== 0 for all inputs),
  - read actions == values crossing the Toll in its configured direction(s) / values per action,
    and nothing else (a tensor configured 'down' is not charged for write-backs, ...).
The guard of the third clause (a Toll must not be the outermost holder of a tensor shared between
Einsums) is exercised on a two-Einsum mapping whose shared tensor is first held by the Toll."""
from __future__ import annotations

import itertools
import json
import random
import time

from lib.common import (HarnessError, Stats, finish, load_known_findings, main_wrapper, run_sharded, seed)
from lib.symx import model as M
from props import C05

PID = "C31"


def make_instantiations(tier):
    rng = random.Random(seed() + 31)
    fam = [("A2T", "MM", 9), ("A3T", "MM", 6), ("A2T", "MV", 6), ("A3T", "CONV1", 5)] if tier == "quick" else \
          [("A2T", "MM", 27), ("A3T", "MM", 27), ("A2T", "MV", 27), ("A3T", "MV", 18), ("A2T", "CONV1", 18), ("A3T", "CONV1", 18)]
    out = []
    for arch, wl, n in fam:
        ename, tensors, outs, rvs = M.WORKLOADS[wl]
        comps = [nm for k, nm in M.ARCHS[arch]]
        sks = [sk for sk in M.gen_skeletons(arch, wl, 4 * n, seed() + 5) if any(it[0] == "S" and it[1] == "Toll" for it in sk)][:n]
        dirs = list(itertools.product(["up", "down", "up_and_down"], repeat=len(tensors)))
        rng.shuffle(dirs)
        for si, sk in enumerate(sks):
            # every skeleton gets several direction assignments; over the family all 27 occur
            for d in (dirs[(3 * si) % len(dirs)], dirs[(3 * si + 1) % len(dirs)], dirs[(3 * si + 2) % len(dirs)]):
                opts = {"skip": {c: (rng.random() < 0.75) for c in comps}, "toll_dir": dict(zip(tensors, d))}
                vpa = {}
                for t in tensors:
                    vpa[("c", "Toll", t)] = rng.random() < 0.4
                    vpa[("a", "Toll", "read", t)] = rng.random() < 0.3
                out.append((arch, wl, sk, opts, vpa))
    return out


def guard_probe(st: Stats):
    """Third clause, model side: a Toll that is the outermost holder of a tensor shared between two
    Einsums is rejected by run_model (ValueError).  Structural, no numeric domain."""
    from accelforge.frontend.arch import Arch, Compute, Memory, Toll
    from accelforge.frontend.mapping import Compute as MCompute, Mapping, Nested, Sequential, Storage, Temporal, Toll as MToll
    from accelforge.frontend.spec import Spec
    from accelforge.frontend.workload import Workload
    from accelforge.frontend.mapper.metrics import Metrics
    from accelforge.util.parallel import set_n_parallel_jobs
    set_n_parallel_jobs(1)
    wl = dict(rank_sizes={"M": 2, "K": 2, "N": 2, "P": 2}, bits_per_value={"All": 8},
              einsums=["T1[m, n] = T0[m, k] * W0[k, n]", "T2[m, p] = T1[m, n] * W1[n, p]"])

    def spec_for(toll_first):
        arch = M.build_arch("A2T", {})
        def nest(e, tensors, rvs):
            return Nested(nodes=[Storage(tensors=tensors, component="GLB")] + [Temporal(rank_variable=r, tile_shape=1) for r in rvs] +
                          [MCompute(einsum=e, component="MAC")])
        top = [Storage(tensors=["T0", "W0", "W1", "T2"], component="Main")]
        if toll_first:
            top.append(MToll(tensors=["T1"], component="Toll"))      # T1 is never kept in Main
        else:
            top.append(Storage(tensors=["T1"], component="Main"))
            top.append(MToll(tensors=["T1"], component="Toll"))
        m = Mapping(nodes=top + [Sequential(nodes=[nest("E0", ["T0", "W0", "T1"], ["m", "k", "n"]), nest("E1", ["T1", "W1", "T2"], ["m", "n", "p"])])])
        w = Workload(**wl)
        names = [e.name for e in w.einsums]
        for nd, nm in zip(m.nodes[-1].nodes, names):
            nd.nodes[-1].einsum = nm
        s = Spec(arch=arch, workload=w, mapping=m)
        s.model.metrics = Metrics.all_metrics()
        return s

    res = {}
    for toll_first in (True, False):
        try:
            spec_for(toll_first).evaluate_mapping()
            res[toll_first] = "accepted"
        except ValueError as e:
            res[toll_first] = "ValueError" if "Toll" in str(e) else f"ValueError(other): {e}"
        except Exception as e:  # noqa
            res[toll_first] = f"{type(e).__name__}: {str(e)[:200]}"
    st.extra["guard_probe"] = {"toll_outermost_for_shared_tensor": res[True], "memory_above_toll": res[False]}
    return res


def shard(payload):
    K, items = payload
    st = Stats()
    viol = []
    for it in items:
        viol.extend(C05.check_instance(it, K, st))
    d = st.to_dict()
    d["violations"] = viol
    return d


def run(args):
    t0 = time.time()
    if args.replay:
        return C05.run(args)
    K = 3 if args.tier == "quick" else 4
    inst = make_instantiations(args.tier)
    stats = Stats()
    g = guard_probe(stats)
    violations = []
    if g[False] != "accepted":
        raise HarnessError(f"guard probe: the control mapping (Main above the Toll) was not accepted: {g[False]}")
    if g[True] != "ValueError":
        violations.append(dict(property=PID, key="guard", what=f"a Toll that is the outermost holder of a shared tensor is not rejected: {g[True]}",
                               how="props.C31.guard_probe"))
    nsh = max(1, min(len(inst), args.jobs * 3))
    res = run_sharded(shard, [(K, inst[i::nsh]) for i in range(nsh)], args.jobs)
    for r in res:
        stats.merge(r)
        for v in r["violations"]:
            v["property"] = PID
            violations.append(v)
    # every generated skeleton is accepted by the unchanged tree; a rejection or a failure to run on
    # symbols is inconclusive (exit 3), never a silent pass
    for k in ("symbolic_execution_failed", "rejected_by_real_code"):
        stats.unknown += len(stats.extra.get(k) or [])
    kf = load_known_findings(PID)
    known, remaining = [], []
    for v in violations:
        hit = [k for k in kf if k.get("key") and k["key"] == v.get("key")]
        (known.append(hit[0]["what_fails"]) if hit else remaining.append(v))
    dirs = sorted({tuple(sorted(i[3]["toll_dir"].items())) for i in inst})
    return finish(
        PID, args.tier, "model_checking", stats, t0, remaining[:5], known,
        functions_encoded=["analyze_toll", "analyze_storage (propagate_child_results path)", "run_model (Toll outermost-holder guard, occupancy loop)",
                           "component_latency (Toll: read only)", "gather_actions", "TensorHolder._get_values_per_action"],
        bounds=dict(trip_counts=f"1..{K} per loop", instantiations=len(inst), direction_assignments=len(dirs),
                    architectures=["A2T (Main-Toll-GLB-MAC)", "A3T (Main-GLB-Toll-RF-MAC)"], workloads=sorted({i[1] for i in inst}),
                    outside="mapper-returned mappings (third clause: only the model-side guard is exercised), spatial loops, Toll as the outermost holder of a non-shared tensor"),
        assumptions=["as C05", "the Toll is transparent: transfers happen between the memories around it"],
        rule="per instantiation: the C05 obligations plus 'Toll write == 0' and 'Toll occupancy/reservation == 0'; distinct by (instantiation, obligation)",
        explanation="C05 machinery on Toll architectures with per-tensor directions; guard probe for the outermost-holder clause.",
    )


if __name__ == "__main__":
    main_wrapper(PID, run)
