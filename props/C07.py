"""C07 — symbolic cost formulas agree with concrete evaluation at every tile assignment
(Route A + AST; translation validation).

For every mapper template (real get_jobs) the real make_tile_shapes(job) runs with four wrappers
(run_model, compile_dict, util._lambdify_type_check, get_tile_shape_choices) that capture, for every
formula the tile-shape exploration uses, four representations:
   E1 the symengine tree returned by run_model
   E2 the sympy tree handed to compile_dict (after the nested _to_sp conversion)
   E3 Objective.formula (for the columns that are objectives)
   E4 the SOURCE of the lambdified function the (cached) _lambdify_type_check returned
z3 decides E1 == E2 == E3 == E4 for EVERY integer assignment of the tile-shape symbols in the box
1 <= s <= rank bound (no divisibility assumed); when the exact query is sat it is re-decided with a
relative tolerance of 1e-9 (binary-float constants rounded in different places, 15-digit printing).
Cache clause: for up to four formulas per template, sibling expressions over the same symbol list
(exponent -1 -> -2, coefficient + 1, -1 -> -2, two symbols swapped) are requested from the real cached
_lambdify_type_check right after the original, and z3 decides that the returned function's source
computes the REQUESTED sibling (a cache that aliases structurally close keys fails here).  The last leg - the concrete mapping with those tile
shapes evaluates to the same numbers - is validated on solver-chosen valid assignments by running the
real run_model on a copy of the job with numeric tile shapes."""
from __future__ import annotations

import ast
import copy
import inspect
import json
import time
from fractions import Fraction
from unittest import mock

import sympy
import z3

from lib.common import (HarnessError, Stats, count_obligation, finish, main_wrapper, run_sharded, seed, z3_check)
from lib.symx.templates import get_jobs
from lib.symx.tr import Tr, Unsupported, model_value, numeric_witness

PID = "C07"


# ---------------------------------------------------------------------------------------------
# lambdified source -> z3
# ---------------------------------------------------------------------------------------------
class SrcTr:
    """numpy-printer source of sympy.lambdify -> z3 reals over the same variables as a Tr."""

    def __init__(self, tr: Tr, names):
        self.tr = tr
        self.names = names

    def fn(self, src):
        tree = ast.parse(inspect.cleandoc(src)) if not src.startswith("def") else ast.parse(src)
        f = tree.body[0]
        args = [a.arg for a in f.args.args]
        env = {}
        for a in args:
            env[a] = self.tr.var(sympy.Symbol(a, positive=True, integer=True))
        val = None
        for st in f.body:
            if isinstance(st, ast.Assign):
                env[st.targets[0].id] = self.ev(st.value, env)
            elif isinstance(st, ast.Return):
                val = self.ev(st.value, env)
            elif isinstance(st, ast.Expr):
                continue
            else:
                raise Unsupported(f"statement {type(st).__name__}")
        return val

    def real(self, t):
        return z3.ToReal(t) if z3.is_expr(t) and z3.is_int(t) else (z3.RealVal(Fraction(t)) if not z3.is_expr(t) else t)

    def ev(self, n, env):
        if isinstance(n, ast.Constant):
            if isinstance(n.value, (int, float)):
                return z3.RealVal(Fraction(n.value))
            raise Unsupported(f"constant {n.value!r}")
        if isinstance(n, ast.Name):
            if n.id in env:
                return env[n.id]
            raise Unsupported(f"name {n.id}")
        if isinstance(n, ast.UnaryOp):
            v = self.real(self.ev(n.operand, env))
            return -v if isinstance(n.op, ast.USub) else v
        if isinstance(n, ast.BinOp):
            a, b = self.real(self.ev(n.left, env)), self.real(self.ev(n.right, env))
            if isinstance(n.op, ast.Add):
                return a + b
            if isinstance(n.op, ast.Sub):
                return a - b
            if isinstance(n.op, ast.Mult):
                return a * b
            if isinstance(n.op, ast.Div):
                self.tr.denoms.append(b)
                return a / b
            if isinstance(n.op, ast.Pow):
                if isinstance(n.right, ast.Constant) and isinstance(n.right.value, int) or (isinstance(n.right, ast.UnaryOp) and isinstance(n.right.operand, ast.Constant)):
                    k = int(ast.literal_eval(n.right))
                    r = z3.RealVal(1)
                    for _ in range(abs(k)):
                        r = r * a
                    if k < 0:
                        self.tr.denoms.append(r)
                        return z3.RealVal(1) / r
                    return r
                raise Unsupported("non-constant power")
            raise Unsupported(type(n.op).__name__)
        if isinstance(n, ast.Call):
            name = n.func.id if isinstance(n.func, ast.Name) else (n.func.attr if isinstance(n.func, ast.Attribute) else None)
            if name in ("ceil", "ceiling", "floor"):
                x = self.real(self.ev(n.args[0], env))
                c = self.tr._fresh_int(name)
                cr = z3.ToReal(c)
                self.tr.side.append(z3.And(cr - 1 < x, x <= cr) if name != "floor" else z3.And(cr <= x, x < cr + 1))
                return cr
            if name in ("amax", "amin", "max", "min"):
                seq = n.args[0]
                items = [self.real(self.ev(e, env)) for e in (seq.elts if isinstance(seq, (ast.Tuple, ast.List)) else n.args)]
                return self.fold(items, name in ("amax", "max"))
            if name in ("maximum", "minimum"):
                return self.fold([self.real(self.ev(a, env)) for a in n.args], name == "maximum")
            if name == "reduce":
                op = n.args[0].id if isinstance(n.args[0], ast.Name) else n.args[0].attr
                items = [self.real(self.ev(e, env)) for e in n.args[1].elts]
                return self.fold(items, op == "maximum")
            if name in ("float", "float32", "float64", "asarray", "array"):
                return self.ev(n.args[0], env)
            raise Unsupported(f"call {name}")
        if isinstance(n, (ast.Tuple, ast.List)) and len(n.elts) == 1:
            return self.ev(n.elts[0], env)
        raise Unsupported(type(n).__name__)

    @staticmethod
    def fold(items, is_max):
        r = items[0]
        for a in items[1:]:
            r = z3.If(a >= r, a, r) if is_max else z3.If(a <= r, a, r)
        return r


# ---------------------------------------------------------------------------------------------
def capture(job):
    import accelforge.mapper.FFM._make_pmappings.make_pmappings_from_templates.make_tile_shapes as MT
    cap = {"cd": [], "lt": []}
    real_rm, real_cd, real_lt, real_gt = MT.run_model, MT.compile_dict, MT.util._lambdify_type_check, MT.get_tile_shape_choices

    def rm(job_, *a, **k):
        out = real_rm(job_, *a, **k)
        cap["rm"] = out
        return out

    def cd(symbols, dictionary):
        cap["cd"].append((list(symbols), dict(dictionary)))
        return real_cd(symbols, dictionary)

    def lt(*a, **k):
        f = real_lt(*a, **k)
        inner = [c.cell_contents for c in (f.__closure__ or ()) if callable(c.cell_contents)]
        cap["lt"].append((a, f, inner))
        return f

    def gt(**kw):
        cap["objs"] = list(kw["objectives"]) + list(kw.get("alt_objectives") or [])
        cap["rel"] = kw["what_tiles_symbol"]
        return real_gt(**kw)

    with mock.patch.object(MT, "run_model", rm), mock.patch.object(MT, "compile_dict", cd), \
            mock.patch.object(MT.util, "_lambdify_type_check", lt), mock.patch.object(MT, "get_tile_shape_choices", gt):
        df, _ = MT.make_tile_shapes(job)
    cap["df"] = df
    return cap


def symbol_boxes(job, symbols):
    from accelforge.frontend.mapping import Loop
    box = {}
    for n in job.mapping.nodes:
        if isinstance(n, Loop):
            for attr in ("tile_shape", "initial_tile_shape"):
                s = getattr(n, attr, None)
                if isinstance(s, sympy.Symbol):
                    box[s.name] = int(job.rank_variable_bounds[n.rank_variable])
    return {s.name: box.get(s.name, 16) for s in symbols}


def concrete_run(job, assignment):
    """The real run_model on a copy of the job whose tile-shape symbols are numbers."""
    import accelforge.mapper.FFM._make_pmappings.make_pmappings_from_templates.make_tile_shapes as MT
    from accelforge.frontend.mapping import Loop, Reservation
    from accelforge.frontend.mapping import Mapping
    j = copy.copy(job)
    nodes = [copy.copy(n) for n in job.mapping.nodes if not isinstance(n, Reservation)]
    for n in nodes:
        if isinstance(n, Loop):
            for attr in ("tile_shape", "initial_tile_shape"):
                s = getattr(n, attr, None)
                if isinstance(s, sympy.Symbol):
                    setattr(n, attr, int(assignment[s.name]))
    m = Mapping(nodes=nodes)
    m._n_loop_orders = job.mapping._n_loop_orders
    m._template_index = job.mapping._template_index
    j.mapping = m
    out = MT.run_model(j)
    return {**out[1], **out[2], **out[3]}


def shard(payload):
    cfg, idxs = payload
    st = Stats()
    viol = []
    jobs = get_jobs(**cfg)
    for ji in idxs:
        if ji >= len(jobs):
            continue
        job = jobs[ji]
        label = f"{cfg.get('arch')} M={cfg.get('M')} KN={cfg.get('KN')} {'+'.join(cfg.get('metrics'))}{' imperfect' if cfg.get('imperfect') else ''}{' thr=' + str(cfg['throughputs']) if cfg.get('throughputs') else ''} template {ji}"
        t0 = time.time()
        try:
            cap = capture(job)
        except Exception as e:  # noqa
            st.extra.setdefault("templates_without_valid_tile_shapes", 0)
            st.extra["templates_without_valid_tile_shapes"] += 1
            continue
        st.instantiations += 1
        symbols = cap["rm"][0]
        if not symbols:
            continue
        boxes = symbol_boxes(job, symbols)
        e1 = {**cap["rm"][1], **cap["rm"][2], **cap["rm"][3]}
        e2 = {}
        for syms, d in cap["cd"]:
            e2.update(d)
        e3 = {o.name: o.formula for o in cap["objs"]}
        e4 = {}
        for a, f, inner in cap["lt"]:
            if len(a) == 2 and inner:
                for k, v in e2.items():
                    if v is a[1] or (isinstance(v, sympy.Basic) and v == a[1]):
                        try:
                            e4[k] = inspect.getsource(inner[0])
                        except (OSError, TypeError):
                            e4[k] = getattr(inner[0], "__doc__", "") or ""
        tr = Tr()
        for s in symbols:
            tr.var(sympy.Symbol(s.name, positive=True, integer=True))
        srctr = SrcTr(tr, [s.name for s in symbols])
        st.encode_s += time.time() - t0
        sol = z3.Solver()
        for s in symbols:
            v = tr.env[s.name]
            sol.add(v >= 1, v <= boxes[s.name])
        pairs = []
        from lib.symx.model import canon
        for k in e2:
            try:
                c2 = canon(e2[k])
                t2 = tr(c2)
                # for two sympy trees the difference is normalised first (expand: identical polynomials
                # cancel syntactically, Max/ceiling atoms stay opaque) and the solver is asked `diff != 0`
                if k in e1:
                    pairs.append((f"{k}: symengine tree == sympy tree", tr(canon(e1[k])), t2, k, tr(sympy.expand(canon(e1[k]) - c2))))
                if k in e3:
                    pairs.append((f"{k}: objective formula == sympy tree", tr(canon(e3[k])), t2, k, tr(sympy.expand(canon(e3[k]) - c2))))
                if k in e4 and e4[k]:
                    pairs.append((f"{k}: lambdified source == sympy tree", srctr.real(srctr.fn(e4[k])), t2, k, None))
            except Unsupported as e:
                st.extra["untranslatable"] = st.extra.get("untranslatable", 0) + 1
        sol.add(tr.constraints())
        if z3_check(sol, st, 30000) != "sat":
            raise HarnessError(f"vacuous {label}")
        st.vacuity_ok += 1
        for d, a, b, k, dterm in pairs:
            sol.push()
            r = decide_equal(sol, a, b, st, dterm, [(tr.env[s_.name], boxes[s_.name]) for s_ in symbols])
            count_obligation(st, r, label + d + str(a)[:80])
            if r == "sat":
                m = sol.model()
                pt = {s.name: int(model_value(m, tr.env[s.name])) for s in symbols}
                # replay: evaluate both representations numerically at the point
                fn = [f for a_, f, inner in cap["lt"] if len(a_) == 2 and (a_[1] is e2[k] or a_[1] == e2[k])]
                vals = {"sympy": float(sympy.sympify(e2[k]).subs({sympy.Symbol(n, positive=True, integer=True): v for n, v in pt.items()}).evalf()) if True else None}
                try:
                    import numpy as np
                    vals["lambdified"] = float(fn[0](*[np.float32(pt[s.name]) for s in symbols])) if fn else None
                except Exception as e:  # noqa
                    vals["lambdified"] = str(e)
                vals["symengine"] = float(sympy.sympify(e1[k]).subs({sympy.Symbol(n): v for n, v in pt.items()}).evalf()) if k in e1 else None
                st.replays += 1
                nums = [v for v in vals.values() if isinstance(v, float)]
                if len(nums) >= 2 and max(nums) - min(nums) <= 1e-4 * max(1.0, max(abs(x) for x in nums)):
                    raise HarnessError(f"C07 model does not reproduce: {label} {d} at {pt}: {vals}")
                viol.append(dict(property=PID, cfg=cfg, template=ji, key=k, obligation=d, point=pt, values=vals,
                                 what=f"{label}: {d} fails at {pt}: {vals}"))
            sol.pop()
        # ---- lambdify cache: no aliasing between structurally close requests ---------------------------------
        # For up to 4 formulas of this template, sibling expressions over the same symbol list (every
        # exponent -1 -> -2, every numeric coefficient c -> c + 1, two symbols swapped) are requested from
        # the real (cached) _lambdify_type_check right after the original; the function it returns must
        # compute the REQUESTED expression: z3 decides `source of returned function == sibling` over the box.
        import accelforge.mapper.FFM._make_pmappings.make_pmappings_from_templates.make_tile_shapes as _MT
        UP = _MT.util
        done = 0
        for k, v in e2.items():
            if done >= 4 or not isinstance(v, sympy.Basic) or not v.free_symbols:
                continue
            done += 1
            sibs = []
            pw = {a: sympy.Pow(a.args[0], -2) for a in v.atoms(sympy.Pow) if a.args[1] == -1}
            if pw:
                sibs.append(("exponent -1 -> -2", v.xreplace(pw)))
            nums = {a: a + 1 for a in v.atoms(sympy.Number) if a not in (0, 1, -1) and not a.is_Integer or (a.is_Integer and abs(a) > 1)}
            if nums:
                sibs.append(("coefficient + 1", v.xreplace(nums)))
            neg = {a: sympy.Float(-2.0) if a.is_Float else sympy.Integer(-2) for a in v.atoms(sympy.Number) if a == -1}
            if neg:
                sibs.append(("coefficient -1 -> -2", v.xreplace(neg)))
            fs = sorted(v.free_symbols, key=lambda x: x.name)
            if len(fs) >= 2:
                sibs.append(("symbols swapped", v.xreplace({fs[0]: fs[1], fs[1]: fs[0]})))
            UP._lambdify_type_check(list(symbols), v)
            for what, sib in sibs:
                if sib == v:
                    continue
                f = UP._lambdify_type_check(list(symbols), sib)
                inner = [c.cell_contents for c in (f.__closure__ or ()) if callable(c.cell_contents)]
                try:
                    src = inspect.getsource(inner[0])
                except (OSError, TypeError):
                    src = getattr(inner[0], "__doc__", "") or ""
                try:
                    a_t, b_t = srctr.real(srctr.fn(src)), tr(canon(sib))
                except Unsupported:
                    st.extra["untranslatable"] = st.extra.get("untranslatable", 0) + 1
                    continue
                sol.push()
                sol.add(tr.constraints())
                r = decide_equal(sol, a_t, b_t, st, None, [(tr.env[s_.name], boxes[s_.name]) for s_ in symbols])
                d = f"{k}: cached lambdify of sibling ({what}) computes the sibling"
                count_obligation(st, r, label + d)
                st.extra["cache_sibling_requests"] = st.extra.get("cache_sibling_requests", 0) + 1
                if r == "sat":
                    m = sol.model()
                    pt = {s.name: int(model_value(m, tr.env[s.name])) for s in symbols}
                    import numpy as np
                    got = float(f(*[np.float32(pt[s.name]) for s in symbols]))
                    want = float(sib.subs({s2: pt[s2.name] for s2 in sib.free_symbols}).evalf())
                    st.replays += 1
                    if abs(got - want) <= 1e-4 * max(1.0, abs(want)):
                        raise HarnessError(f"C07 cache model does not reproduce: {label} {d} at {pt}: {got} vs {want}")
                    viol.append(dict(property=PID, cfg=cfg, template=ji, key=k, obligation=d, point=pt, values={"returned function": got, "requested expression": want},
                                     what=f"{label}: {d} fails at {pt}: the function returned for {sib} evaluates to {got}, the expression to {want}"))
                sol.pop()
        # ---- last leg: concrete evaluation of the mapping at solver-chosen valid assignments -------------
        rel = cap.get("rel")
        df = cap["df"]
        if len(df) > 0:
            rows = [df.iloc[0], df.iloc[len(df) // 2], df.iloc[-1]]
            for row in rows[: (2 if len(df) > 1 else 1)]:
                pt = {s.name: int(row[s.name]) for s in symbols}
                try:
                    conc = concrete_run(job, pt)
                except Exception as e:  # noqa
                    st.extra.setdefault("concrete_runs_failed", []).append(f"{label} {pt}: {type(e).__name__}: {str(e)[:80]}")
                    continue
                st.extra["traces_validated_against_impl"] = st.extra.get("traces_validated_against_impl", 0) + 1
                for k, v in e2.items():
                    if k not in conc:
                        continue
                    sym_v = float(sympy.sympify(v).subs({sympy.Symbol(n, positive=True, integer=True): x for n, x in pt.items()}).evalf())
                    cv = float(conc[k])
                    if abs(sym_v - cv) > 1e-6 * max(1.0, abs(cv)):
                        viol.append(dict(property=PID, cfg=cfg, template=ji, key=k, obligation="formula == concrete evaluation", point=pt,
                                         values={"formula": sym_v, "concrete": cv},
                                         what=f"{label}: formula for {k} gives {sym_v} at {pt}, the concrete mapping evaluates to {cv}"))
                        break
        st.sample({"template": label, "symbols": [s.name for s in symbols], "boxes": boxes, "formulas": len(e2), "example": pairs[0][0] if pairs else None})
    d = st.to_dict()
    d["violations"] = viol[:3]
    return d


def decide_equal(sol, a, b, st, dterm=None, boxes=None):
    """Inside an open push(): asserts a != b and checks.  The formulas (and the printed source of
    the lambdified functions, 15 significant digits) carry binary-float constants such as 1792/3
    rounded in different places: when the exact query is sat, it is re-decided with a relative
    tolerance of 1e-9, and only a larger gap counts as a disagreement.  `dterm` is an optional
    pre-normalised difference (a - b); on `unknown` the query is case-split over the tile-shape
    symbol with the smallest box (substituted and simplified, lib.common.split_check)."""
    from lib.common import split_check
    sol.push()
    sol.add((sol_real(dterm) != 0) if dterm is not None else (sol_real(a) != sol_real(b)))
    r = z3_check(sol, st, 30000)
    if r == "unknown" and boxes:
        v, hi = min(boxes, key=lambda t: t[1])
        r, _, _ = split_check(sol, [v], 1, hi, st, 30000, max_cases=64)
    sol.pop()
    if r == "unsat":
        return r
    ar, br = sol_real(a), sol_real(b)
    diff = z3.If(ar >= br, ar - br, br - ar)
    mag = z3.If(ar >= 0, ar, -ar)
    sol.add(diff > z3.RealVal(Fraction(1, 10**9)) * (1 + mag))
    r2 = z3_check(sol, st, 30000)
    if r2 == "unknown" and boxes:
        v, hi = min(boxes, key=lambda t: t[1])
        r2, fix, _ = split_check(sol, [v], 1, hi, st, 30000, max_cases=64)
        if r2 == "sat":
            sol.add(fix)
            if z3_check(sol, st, 60000) != "sat":
                r2 = "unknown"
    if r2 == "unsat" and r == "sat":
        st.extra["equal_up_to_constant_rounding_1e-9"] = st.extra.get("equal_up_to_constant_rounding_1e-9", 0) + 1
    return r2


def sol_real(t):
    return z3.ToReal(t) if z3.is_int(t) else t


def run(args):
    t0 = time.time()
    if args.replay:
        v = json.load(open(args.replay))
        print(v["what"])
        return 1
    cfgs = [dict(arch="simple", M=12, KN=8, metrics=("ENERGY", "LATENCY")),
            dict(arch="simple", M=12, KN=8, metrics=("ENERGY_DELAY_PRODUCT",)),
            dict(arch="simple", M=12, KN=6, metrics=("ENERGY", "LATENCY"), imperfect=True),
            dict(arch="a3", M=12, KN=8, metrics=("ENERGY", "LATENCY"), glb_size=65536),
            # integer throughputs that do not divide the action counts, a single latency-bearing component
            dict(arch="simple", M=8, KN=4, metrics=("ENERGY", "LATENCY"), throughputs={"MAC": 3}),
            dict(arch="simple", M=8, KN=4, metrics=("ENERGY", "LATENCY"), throughputs={"GlobalBuffer": 3, "MAC": "inf"})]
    if args.tier == "thorough":
        # (two further configurations - a3 with imperfect factorisation, simple with a 1024-bit buffer and LATENCY only -
        # were dropped from the tier: with them the command did not finish within 25 minutes)
        cfgs += [dict(arch="a3", M=6, KN=12, metrics=("ENERGY_DELAY_PRODUCT",), glb_size=65536)]
    per_cfg = 16 if args.tier == "quick" else 40
    payloads = []
    for cfg in cfgs:
        n = len(get_jobs(**cfg))
        idx = list(range(n))[:per_cfg] if n <= per_cfg else [int(i * n / per_cfg) for i in range(per_cfg)]
        k = max(1, min(len(idx), args.jobs // 2))
        for s in range(k):
            payloads.append((cfg, idx[s::k]))
    stats = Stats()
    res = run_sharded(shard, payloads, args.jobs)
    violations = []
    for r in res:
        stats.merge(r)
        violations.extend(r["violations"])
    stats.extra["programs"] = stats.instantiations
    return finish(
        PID, args.tier, "translation_validation", stats, t0, violations[:5], [],
        functions_encoded=["make_tile_shapes._make_tile_shapes (nested _to_sp)", "compile_dict", "util.parallel._lambdify_type_check (incl. its cache)",
                           "Objective.formula", "run_model (symbolic tile shapes)", "sympy.lambdify output (source)"],
        bounds=dict(configurations=[str(c) for c in cfgs], templates_per_configuration=per_cfg, boxes="every tile-shape symbol in [1, rank bound] (integers, no divisibility assumed)",
                    outside="float32 evaluation of the compiled functions (reals here), spatial loops, templates for which the mapper finds no valid tile shape"),
        assumptions=["the lambdified function's source (inspect.getsource / docstring) is what the function computes",
                     "reals instead of float32", "formulas that differ by less than 1e-9 relative everywhere in the box are equal (float constants rounded in different places)"],
        rule="per template and formula: up to three equivalences (symengine==sympy, objective==sympy, lambdified source==sympy) plus, for four formulas per template, one cache-aliasing obligation per sibling expression; distinct by (template, formula, pair)",
        explanation="Four representations of each formula captured from the real make_tile_shapes; pairwise equivalence decided by z3 over the box.",
    )


if __name__ == "__main__":
    main_wrapper(PID, run)
