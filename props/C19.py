"""C19 — costs scale with the architecture's cost parameters (Route A; relational, per mapping).

For every skeleton the real model is executed symbolically twice or more:
  base      : parameters p
  energy*k  : every per-action energy and every leak power is the product k*p
  thr*k     : every per-action throughput is the product k*p
  inst      : workload.n_instances = Nw, einsum.n_instances = Ne (symbols)
and z3 decides, for all k > 0, Nw, Ne >= 1, all tile shapes, rank bounds and costs:
  energy*k : every energy column and the energy totals scale by k; actions, latencies, usages equal
  thr*k    : every latency column and the total scale by 1/k; leak energy by 1/k; dynamic energy,
             actions and usages equal
  inst     : actions, energies, latencies and their totals scale by Nw*Ne; usages/reservations equal
The step from per-mapping scaling to the OPTIMUM needs the search to be scale independent (C01,
not applicable) and is not claimed."""
from __future__ import annotations

import json
import random
import time

import sympy
import z3

from lib.common import (HarnessError, Stats, count_obligation, finish, load_known_findings,
                        main_wrapper, run_sharded, seed, z3_check)
from lib.symx import model as M
from lib.symx.tr import Tr, model_value
from props import C05

PID = "C19"
SEP = "<SEP>"


def classify_col(col):
    p = col.split(SEP)
    if p[0] == "action":
        return "action"
    if p[0] == "energy":
        return "leak" if p[-1] == "leak" else "dynamic"
    if p[0] == "latency":
        return "latency"
    if col == "Total" + SEP + "latency":
        return "latency"
    if col == "Total" + SEP + "dynamic_energy":
        return "dynamic"
    if col == "Total" + SEP + "leak_energy":
        return "leak"
    if p[0] in ("usage", "reservation", "tensor"):
        return "usage"
    if "first_latency" in col or p[0].startswith("first"):
        return "latency"
    return "other"


def expected_factor(kind, mode, k, N):
    """factor f with col_scaled == f * col_base"""
    if mode == "energy":
        return {"action": 1, "dynamic": k, "leak": k, "latency": 1, "usage": 1}.get(kind)
    if mode == "throughput":
        return {"action": 1, "dynamic": 1, "leak": 1 / k, "latency": 1 / k, "usage": 1}.get(kind)
    if mode == "inst":
        return {"action": N, "dynamic": N, "leak": N, "latency": N, "usage": 1}.get(kind)


def check_instance(payload, st: Stats):
    arch, wl, sk, opts, vpa = payload
    label = f"{arch}/{wl} {M.sk_str(sk)}"
    t0 = time.time()
    k = sympy.Symbol("k_scale", positive=True)
    Nw = sympy.Symbol("N_workload", positive=True, integer=True)
    Ne = sympy.Symbol("N_einsum", positive=True, integer=True)
    base = M.symbolic_run(arch, wl, sk, opts, vpa)
    runs = {"energy": M.symbolic_run(arch, wl, sk, opts, vpa, scale={"energy": k}),
            "throughput": M.symbolic_run(arch, wl, sk, opts, vpa, scale={"throughput": k}),
            "inst": M.symbolic_run(arch, wl, sk, opts, vpa, inst=(Nw, Ne))}
    if base.error or any(r.error for r in runs.values()):
        st.extra.setdefault("symbolic_execution_failed", []).append(f"{label}: {base.error or [r.error for r in runs.values()]}")
        return []
    st.instantiations += 1
    viol = []
    for mode, run in runs.items():
        tr = Tr()
        cols = {**base.df, **base.usage}
        cols2 = {**run.df, **run.usage}
        obligations = []
        if set(cols) != set(cols2):
            obligations.append((f"[{mode}] same set of columns: {sorted(set(cols) ^ set(cols2))[:4]}", z3.IntVal(1), z3.IntVal(0)))
        for col in cols:
            if col not in cols2:
                continue
            kind = classify_col(col)
            f = expected_factor(kind, mode, k, Nw * Ne)
            if f is None:
                continue
            a, b = M.canon(cols[col]), M.canon(cols2[col])
            if mode != "inst":
                b = M.pull_positive_factor(b, M.canon(k))
            diff = sympy.expand(b - M.canon(f) * a)
            obligations.append((f"[{mode}*] {col} scales by {f}", tr(diff), z3.IntVal(0)))
        st.encode_s += time.time() - t0
        s = z3.Solver()
        s.add([v > 0 for v in tr.env.values()])
        s.add([v >= 1 for n, v in tr.env.items() if n.startswith(("N_", "B_", "stride"))])
        s.add(tr.constraints())
        if z3_check(s, st, 60000) != "sat":
            raise HarnessError("vacuous assumptions")
        st.vacuity_ok += 1
        for d, x, y in obligations:
            s.push()
            s.add(x != y)
            r = z3_check(s, st, 30000)
            count_obligation(st, r, label + d)
            if r == "unknown":
                st.extra.setdefault("unknown_obligations", []).append((label + " " + d)[:300])
            if r == "sat":
                m = s.model()
                viol.append((mode, d, {n: model_value(m, v) for n, v in tr.env.items()}))
            s.pop()
        # seeded wrong expectation: "leak energy does not scale" must be refuted in the energy run
        if mode == "energy":
            col = "Total" + SEP + "leak_energy"
            s.push()
            s.add(tr(sympy.expand(M.pull_positive_factor(M.canon(cols2[col]), M.canon(k)) - M.canon(cols[col]))) != 0)
            if z3_check(s, st, 60000) == "sat":
                st.mutants_refuted += 1
            else:
                raise HarnessError("seeded wrong expectation not refuted")
            s.pop()
        st.sample({"instantiation": label, "mode": mode, "obligation": obligations[-1][0]})
    out = []
    for mode, d, vals in viol[:2]:
        out.append(replay(payload, mode, d, vals, st))
    return [v for v in out if v]


def replay(payload, mode, d, vals, st):
    """Concrete: run the real evaluate_mapping twice (p and scaled p) and compare the column."""
    arch, wl, sk, opts, vpa = payload
    kf = float(vals.get("k_scale") or 2.0)
    if abs(kf - 1.0) < 1e-9:
        kf = 2.0
    trips = {i: 2 for i in M.loops_of(sk)}
    costs = {n: float(v) for n, v in vals.items() if v is not None and not n.startswith(("B_", "stride", "N_", "k_"))}
    rowa, _ = C05.concrete_run(arch, wl, sk, opts, vpa, trips, costs)
    c2 = dict(costs)
    comps = [nm for _, nm in M.ARCHS[arch]]
    if mode == "energy":
        for c in comps:
            c2[f"leak_{c}"] = costs.get(f"leak_{c}", 1.0) * kf
            for a in ("read", "write", "compute"):
                c2[f"E_{c}_{a}"] = costs.get(f"E_{c}_{a}", 1.0) * kf
    elif mode == "throughput":
        for c in comps:
            for a in ("read", "write", "compute"):
                c2[f"T_{c}_{a}"] = costs.get(f"T_{c}_{a}", 1.0) * kf
    wl_opts = None
    if mode == "inst":
        nw = max(1, int(vals.get("N_workload") or 2))
        ne = max(1, int(vals.get("N_einsum") or 3))
        if nw * ne == 1:
            nw, ne = 2, 3
        kf = float(nw * ne)
        wl_opts = dict(n_instances=nw, einsum_n_instances=ne)
    rowb, _ = C05.concrete_run(arch, wl, sk, opts, vpa, trips, c2, wl_opts=wl_opts)
    st.replays += 1
    bad = []
    for col in rowa:
        try:
            a, b = float(rowa[col]), float(rowb[col])
        except (TypeError, ValueError):
            continue
        p = col.split(SEP)
        kind = classify_col(SEP.join(p[1:])) if p[0] not in ("Total", "usage", "reservation") else classify_col(col)
        if col == "Total" + SEP + "energy":
            continue
        f = {"energy": {"action": 1, "dynamic": kf, "leak": kf, "latency": 1, "usage": 1},
             "throughput": {"action": 1, "dynamic": 1, "leak": 1 / kf, "latency": 1 / kf, "usage": 1},
             "inst": {"action": kf, "dynamic": kf, "leak": kf, "latency": kf, "usage": 1}}[mode].get(kind)
        if f is None:
            continue
        if abs(b - f * a) > 1e-6 * max(1.0, abs(f * a)):
            bad.append(dict(column=col, base=a, scaled=b, expected=f * a))
    if not bad:
        raise HarnessError(f"C19 model for '{d}' does not reproduce concretely")
    return dict(property=PID, arch=arch, workload=wl, skeleton=sk, arch_opts=opts, mode=mode, k=kf, mismatches=bad[:8],
                vpa_mode={"|".join(k_): v for k_, v in vpa.items() if v}, vals={n: (float(v) if v is not None else None) for n, v in vals.items()}, obligation=d,
                what=f"scaling {mode} by {kf}: {bad[0]}")


def shard(items):
    st = Stats()
    viol = []
    for it in items:
        viol.extend(check_instance(it, st))
    d = st.to_dict()
    d["violations"] = viol
    return d


def run(args):
    t0 = time.time()
    if args.replay:
        v = json.load(open(args.replay))
        sk = [tuple(x) for x in v["skeleton"]]
        vpa = {tuple(k_.split("|")): m for k_, m in v["vpa_mode"].items()}
        try:
            r = replay((v["arch"], v["workload"], sk, v["arch_opts"], vpa), v["mode"], v["obligation"], v["vals"], Stats())
        except HarnessError as e:
            print("does not reproduce:", e)
            return 0
        print(json.dumps(r["mismatches"], indent=1))
        return 1
    fam = [("A2", "MM", 10), ("A3", "MM", 6), ("A2T", "MV", 5), ("A2", "CONV1", 5)] if args.tier == "quick" else \
          [("A2", "MM", 60), ("A3", "MM", 50), ("A2T", "MM", 30), ("A3T", "MV", 30), ("A2", "CONV1", 30), ("A3", "MV", 30)]
    inst = C05.make_instantiations(args.tier, families=fam)
    stats = Stats()
    nsh = max(1, min(len(inst), args.jobs * 2))
    res = run_sharded(shard, [inst[i::nsh] for i in range(nsh)], args.jobs)
    violations = []
    for r in res:
        stats.merge(r)
        violations.extend(r["violations"])
    stats.unknown += len(stats.extra.get("symbolic_execution_failed") or [])
    return finish(
        PID, args.tier, "model_checking", stats, t0, violations[:5], [],
        functions_encoded=["run_model (n_instances scaling, totals)", "compute_energy_from_actions", "component_latency", "gather_actions",
                           "analyze_reuse_and_add_reservations_to_mapping"],
        bounds=dict(instantiations=len(inst), symbolic="k>0 real; Nw, Ne >= 1 integers; all tile shapes, rank bounds and costs (no trip-count bound: relational identities)",
                    outside="the optimum over mappings (needs C01), persistent tensors, spatial loops, power gating"),
        assumptions=["differences are normalised by sympy.expand before the solver query", "per-mapping statement only"],
        rule="one obligation per (instantiation, scaling mode, output column); distinct by text",
        explanation="Relational check between symbolic executions of the real model with p and k*p.",
    )


if __name__ == "__main__":
    main_wrapper(PID, run)
