#!/bin/bash
# Builds /verif/.venv: a venv of /venv's python that sees /venv's site-packages (repo deps) plus
# z3-solver, cvc5 and crosshair-tool installed offline from /opt/veriftools/wheels.
set -e
cd "$(dirname "$0")"
V=.venv
if [ -x "$V/bin/python" ] && "$V/bin/python" -c "import z3, crosshair, accelforge" 2>/dev/null; then
  exit 0
fi
rm -rf "$V"
/venv/bin/python -m venv "$V"
SP=$("$V/bin/python" -c "import sysconfig; print(sysconfig.get_paths()['purelib'])")
echo "import site; site.addsitedir('/venv/lib/python3.12/site-packages')" > "$SP/_base.pth"
PIP_NO_INDEX=1 "$V/bin/pip" install -q --no-index --find-links /opt/veriftools/wheels z3-solver crosshair-tool cvc5 jsonschema >/dev/null
"$V/bin/python" -c "import z3, crosshair, accelforge, sympy; print('verif venv ok', z3.get_version_string())"
